// Package c18 decides property C18: SectionWriter confines and accounts for
// every byte across any call sequence (stateful, with fault injection).
package c18

import (
	"errors"
	"fmt"
	"io"
	"math"
	"math/bits"
	"testing"

	"github.com/openacid/low/iohelper"
	"pgregory.net/rapid"

	"verif/harness/gen"
	"verif/harness/vk"
)

func TestMain(m *testing.M) { vk.Main(m, "C18") }

type Op struct {
	K      string `json:"k"` // write | writeat | seek | size
	Len    int    `json:"len,omitempty"`
	O      int64  `json:"o,omitempty"`
	Whence int    `json:"whence,omitempty"`
}

type Fault struct {
	Kind string `json:"kind"`        // none | capacity | oneshot | fullerr | shortnil
	C    int64  `json:"c,omitempty"` // capacity: absolute offsets >= C are refused; oneshot / fullerr / shortnil: the trip offset
	J    int    `json:"j,omitempty"` // (unused, kept for old case files)
}

type Case struct {
	Kind  string `json:"kind"` // section | attowriter | nested-section | nested-at (a writer over an inner section [Off, Off+N))
	Off   int64  `json:"off"`
	N     int64  `json:"n,omitempty"`
	Off2  int64  `json:"off2,omitempty"` // nested kinds: start of the outer writer inside the inner section
	N2    int64  `json:"n2,omitempty"`   // nested-section: length of the outer section
	Fault Fault  `json:"fault"`
	Ops   []Op   `json:"ops"`
	// Probe: when the cursor is observed with Seek(0, SeekCurrent). "" after every step; "sparse" after about half of
	// the steps (a pure function of the case and the step) and after the last one; "end" after the last step only -
	// so that a Seek, a truncated or a failed Write is followed DIRECTLY by the next Write / WriteAt.
	Probe string `json:"probe,omitempty"`
}

// probeAfter: is the cursor observed after step si of the case?
func probeAfter(c Case, si int) bool {
	switch c.Probe {
	case "end":
		return si == len(c.Ops)-1
	case "sparse":
		return si == len(c.Ops)-1 || vk.Mix(uint64(si)*0x9e3779b97f4a7c15^uint64(len(c.Ops))<<40^uint64(c.Off))&1 == 0
	}
	return true
}

var checker = &vk.Checker[Case]{
	ID: "C18",
	Rule: "sections (off in {0,1,7,100,509,4094,2^32+5,2^62} or log-uniform below 2^62, n in {0,1,2,8,64} or log-uniform in [1, 2^14)) or AtToWriter(w, off), also stacked on an inner SectionWriter (nested), over a recording in-memory WriterAt with a fault plan (none; capacity C: bytes at absolute offset >= C refused after writing those below with (m<len, errFull); one-shot: the first write covering a trip offset stores the bytes before it and fails with errIO; fullerr: the first write covering a trip offset stores ALL its bytes and still returns (len, errLate); shortnil: the first write covering a trip offset stores the bytes before it and returns (m<len, nil) - not a conformant io.WriterAt, see the latitude); " +
		"histories of <= 40 (thorough <= 200) steps: Write(len 0, 1, .., exactly to the limit, crossing it, log-uniform up to 2^14; an empty buffer is nil in about half of the steps, about half of the buffers start at an odd address inside a larger buffer), WriteAt(buf, o in [-2, n+3] or at the top of int64), Seek(offset in [-n-3, n+3] or 2^33, whence in {0,1,2,3,-1}), Size; AtToWriter histories also around a far section-relative position F (2^34 <= F <= 2^61, log-uniform and 2^k-1, 2^k, 2^k+1) and single WriteAt calls at such offsets; each buffer carries a per-step byte pattern; fixed histories for every section length 2^k-1, 2^k, 2^k+1 and two more per octave (k <= 20, thorough 22) under every fault kind (the quick tier thins them out: every second combination above 2^12, two histories per octave above 2^16), for every far position 2^34..2^61, with buffers of several MiB, and Write-ONLY histories on AtToWriter (near start, start 2^62 up to a full device, over an inner section that ends only there) whose few large Writes carry the cursor beyond 2^24 (thorough 2^26) bytes. " +
		"When the cursor is observed is part of the case (probe): after every step (two thirds of the random histories, all size-grid histories), after about half of the steps, or after the last step only - then a Seek (accepted or refused), a truncated and a failed Write are followed DIRECTLY by the next Write (the small fixed histories, the invalid-whence and the far-position histories run in these modes too). " +
		"Reference model: base/cursor/limit + expected memory image + expected (n, error class) per step; after EVERY step: return values, every byte the recorder received lies inside [off, off+n), the memory image (position and content of every byte that landed) == model (the number of underlying calls is not asserted), cursor == model (observed via Seek(0, SeekCurrent) after the steps the probe plan names; where it is not observed, the next Write shows through the image where the cursor was), Size()==n. " +
		"Latitude the statement leaves (all accepted): an error that wraps the expected one (errors.Is) counts as that error; an EMPTY request inside the writer's own section need not reach the underlying writer (its error may or may not surface); a request that is truncated AND fails may return either error; a Seek beyond the section end may be refused if the cursor then stays; the error value for a negative WriteAt offset (count 0); AtToWriter offsets beyond 2^61; AtToWriter is declared to return an io.Writer: if the value offers no Seek / WriteAt, those steps and the cursor observation are skipped (counted in the classes attowriter-without-seek:* / attowriter-without-writeat:*; the history then degenerates into Write-only from the start, and 'no practical end' rests on the Write-only histories beyond 2^24 / 2^26 bytes and on far START offsets - positions that only a Seek could reach are then not exercised); how a request is cut into underlying calls: under fullerr the count may be anything from the trip offset's byte to the whole request as long as exactly that prefix landed and the cursor follows it; under shortnil (the writer breaks the io.WriterAt contract) only this is asserted: the count is the prefix that landed (the bytes before the trip offset, or the whole request if the implementation re-issues the rest), the cursor advanced by it, the error IS io.ErrShortWrite if the writer's own section end cut the request, is NOT io.ErrShortWrite if the request fits the section (nil or any other error), and is open if only an inner section's end cut it. " +
		"Non-trivial: >= 2 writes with a Seek or a truncated/failed/short write before a later write. Distinct by hash of the history (probe plan included).",
	Check:    check,
	Classify: classify,
}

var errFull = errors.New("injected: device full")
var errIO = errors.New("injected: i/o error")
var errLate = errors.New("injected: write stored, sync failed")

// recorder is the underlying io.WriterAt: sparse memory image + call log + fault plan.
type call struct {
	off int64
	n   int
}

// image is a sparse memory image in 4 KiB pages (bytes + which of them were written).
type page struct {
	b [4096]byte
	w [4096]bool
}

type image struct {
	pages map[int64]*page
	dirty map[int64]struct{} // pages written since the last comparison
}

func newImage() *image { return &image{pages: map[int64]*page{}, dirty: map[int64]struct{}{}} }

func (im *image) write(off int64, p []byte) {
	for len(p) > 0 {
		k, at := off>>12, int(off&4095)
		pg := im.pages[k]
		if pg == nil {
			pg = &page{}
			im.pages[k] = pg
		}
		im.dirty[k] = struct{}{}
		n := copy(pg.b[at:], p)
		for i := at; i < at+n; i++ {
			pg.w[i] = true
		}
		p, off = p[n:], off+int64(n)
	}
}

func pageDiff(a, b *page) (int, bool) {
	if a == nil && b == nil {
		return 0, false
	}
	if a == nil {
		a, b = b, a
	}
	for i := range a.b {
		if b == nil {
			if a.w[i] {
				return i, true
			}
		} else if a.w[i] != b.w[i] || (a.w[i] && a.b[i] != b.b[i]) {
			return i, true
		}
	}
	return 0, false
}

// diff returns an absolute offset at which two images differ (written in one and not in the other, or
// written with different bytes). Only the pages touched since the previous comparison are looked at:
// the others were equal then and have not changed.
func (im *image) diff(o *image) (int64, bool) {
	at, differ := int64(0), false
	for _, d := range []map[int64]struct{}{im.dirty, o.dirty} {
		for k := range d {
			if i, bad := pageDiff(im.pages[k], o.pages[k]); bad && (!differ || k<<12+int64(i) < at) {
				at, differ = k<<12+int64(i), true
			}
		}
	}
	if !differ {
		clear(im.dirty)
		clear(o.dirty)
	}
	return at, differ
}

// answer is the fault plan: what the underlying writer does with WriteAt(l bytes at absolute offset off).
// It returns how many bytes are stored, the error, and which contract-relevant fault fired.
// The positional faults are defined by position and not by call number so that they mean the same for
// an implementation that cuts a buffer into several calls.
func answer(f Fault, tripped *bool, off int64, l int) (n int, err error, fired string) {
	n = l
	covers := !*tripped && l > 0 && off <= f.C && f.C < off+int64(l)
	switch f.Kind {
	case "capacity":
		if off+int64(l) > f.C {
			n, err = int(max(f.C-off, 0)), errFull
		}
	case "oneshot": // the first write that covers the trip offset stores the bytes before it and fails; later writes are not affected
		if covers {
			*tripped = true
			n, err = int(f.C-off), errIO
		}
	case "fullerr": // the first write that covers the trip offset stores everything and reports an error all the same
		if covers {
			*tripped = true
			err, fired = errLate, "fullerr"
		}
	case "shortnil": // the first write that covers the trip offset stores the bytes before it and reports NO error
		if covers {
			*tripped = true
			n, fired = int(f.C-off), "shortnil"
		}
	}
	return
}

type recorder struct {
	img     *image
	calls   []call
	fault   Fault
	tripped bool
}

func (r *recorder) WriteAt(p []byte, off int64) (int, error) {
	r.calls = append(r.calls, call{off, len(p)})
	n, err, _ := answer(r.fault, &r.tripped, off, len(p))
	r.img.write(off, p[:n])
	return n, err
}

func pattern(step, n int) []byte {
	b := make([]byte, n)
	for i := range b {
		b[i] = byte(1 + (step*37+i*11+i>>8*13+i>>16*7)%255)
	}
	return b
}

// ---------------------------------------------------------------- model

type model struct {
	base, cur, limit int64
	ownEnd           int64 // nested kinds: end of the outer section itself (SeekEnd refers to it)
	unbounded        bool  // AtToWriter directly over the recorder: "no practical end"
	img              *image
	fault            Fault
	tripped          bool
}

// farLimit: the statement promises "no practical end" for AtToWriter; section-relative positions up to
// 2^61 are taken to be covered by that, what lies beyond (next to MaxInt64) is not asserted.
const farLimit = int64(1) << 61

// tooFar: a Write at the cursor of an unbounded writer beyond farLimit is outside what is asserted.
func (m *model) tooFar() bool { return m.unbounded && m.cur-m.base > farLimit }

// error rules of a step (latitude.rule)
const (
	rulePrimary = iota // the primary error, altErr, or nil under nilOK
	ruleNoShort        // anything but io.ErrShortWrite (nil included)
	ruleAny            // not asserted
)

// latitude is what the statement leaves open next to the model's primary answer.
type latitude struct {
	altErr error // also acceptable instead of the primary error (same count)
	nilOK  bool  // (count, nil) is acceptable too: an EMPTY request that an implementation need not hand down
	loose  bool  // negative WriteAt offset: only "nothing passed through" is required
	lo, hi int   // hi > 0: every count in [lo, hi] is acceptable as well (see under)
	rule   int
	passed bool // the request reaches the underlying writer, at absolute offset abs
	abs    int64
	fired  string
}

// ownEndOr is the end of the writer's own section (for a stacked writer it may lie beyond limit, the
// point where the inner section ends).
func (m *model) sectionEnd() int64 {
	if m.ownEnd != 0 {
		return m.ownEnd
	}
	return m.limit
}

// pass models handing l bytes (of a request of want bytes, already cut to the section) to the
// underlying writer at absolute offset abs. It returns the primary count and error.
func (m *model) pass(abs int64, l, want int, lat *latitude) (int, error) {
	trunc := l < want
	truncOwn := abs+int64(want) > m.sectionEnd() // cut by the end of the writer's own section (not only by an inner one)
	var err error
	if trunc {
		err = io.ErrShortWrite
	}
	n, e, fired := answer(m.fault, &m.tripped, abs, l)
	lat.passed, lat.abs, lat.fired = true, abs, fired
	if e != nil {
		err = e
		if trunc { // truncated AND the underlying writer failed: the statement does not rank the two errors
			lat.altErr = io.ErrShortWrite
		}
		lat.nilOK = want == 0 // an underlying error can only be propagated if the (empty) request was handed down
	}
	switch fired {
	case "fullerr":
		// an implementation that cuts the request into several calls stops after the call that covered the
		// trip offset: any prefix that includes that byte may have gone through (the image and the cursor
		// must agree with the count returned)
		lat.lo, lat.hi = int(m.fault.C-abs)+1, l
	case "shortnil":
		// (m < len, nil) breaks the io.WriterAt contract. Fixed by the statement: the count is what went
		// through, ErrShortWrite exactly when the section end cut the request. Open: whether the rest is
		// re-issued (then everything goes through), and which error - if any - reports the short count.
		lat.lo, lat.hi = l, l
		switch {
		case truncOwn: // primary: ErrShortWrite
		case trunc: // only an inner section's end cut it: whether that writer saw the cut depends on how the request was handed down
			lat.rule = ruleAny
		default:
			lat.rule = ruleNoShort
		}
	}
	return n, err
}

func (m *model) write(l int) (int, error, latitude) {
	var lat latitude
	if m.cur >= m.limit {
		// at or beyond the section end: ErrShortWrite, also for an empty request ("starts at or beyond").
		// Inside the own section but beyond the inner one, the refusal is the INNER writer's: an empty
		// request that is not handed down sees no error.
		lat.nilOK = l == 0 && m.cur < m.sectionEnd()
		return 0, io.ErrShortWrite, lat
	}
	want := l
	if room := m.limit - m.cur; int64(l) > room {
		l = int(room)
	}
	n, err := m.pass(m.cur, l, want, &lat)
	m.cur += int64(n)
	return n, err, lat
}

func (m *model) writeAt(l int, o int64) (int, error, latitude) {
	var lat latitude
	if o < 0 {
		lat.loose = true
		return 0, io.ErrShortWrite, lat
	}
	if o >= m.limit-m.base {
		lat.nilOK = l == 0 && o+m.base < m.sectionEnd()
		return 0, io.ErrShortWrite, lat
	}
	abs := o + m.base
	want := l
	if room := m.limit - abs; int64(l) > room {
		l = int(room)
	}
	n, err := m.pass(abs, l, want, &lat)
	return n, err, lat
}

// settle books what the library reported for a step (gn, accepted against the primary count wn and the
// latitude): the bytes that went through enter the expected image, a cursor follows the count.
func (m *model) settle(lat latitude, buf []byte, wn, gn int, cursor bool) {
	if lat.passed && gn > 0 {
		m.img.write(lat.abs, buf[:gn])
	}
	if cursor {
		m.cur += int64(gn - wn)
	}
	if gn != wn {
		vk.Label("accepted-other-count-than-one-call-model:"+lat.fired, 1)
	}
}

// note words the latitude of a step for a failure message.
func (lat latitude) note() string {
	switch lat.fired {
	case "fullerr":
		return fmt.Sprintf(" [the underlying writer stored all bytes and returned an error; counts %d..%d accepted]", lat.lo, lat.hi)
	case "shortnil":
		r := "the error must be io.ErrShortWrite: the section end cut the request"
		if lat.rule == ruleNoShort {
			r = "the request fits the section, so the error must not be io.ErrShortWrite"
		} else if lat.rule == ruleAny {
			r = "error not asserted"
		}
		return fmt.Sprintf(" [the underlying writer stored fewer bytes and returned a nil error; count %d (all re-issued) accepted too; %s]", lat.hi, r)
	}
	return ""
}

// argument is the buffer handed to the library for step si: equal to data, and - as a pure function of
// the case - nil instead of empty for about half of the empty buffers, and for about half of the others a
// slice that starts 1..7 bytes into a larger buffer with foreign non-zero bytes before it and in its
// spare capacity (tail reports whether those are still intact).
func argument(c Case, si int, data []byte) (buf []byte, tail func() bool) {
	sum := vk.Mix(uint64(si)*0x9e3779b97f4a7c15 ^ uint64(len(c.Ops))<<32 ^ uint64(c.Off) ^ uint64(len(data))<<7)
	if len(data) == 0 {
		if sum&1 == 0 {
			return nil, func() bool { return true }
		}
		return []byte{}, func() bool { return true }
	}
	return vk.OddBytes(data, sum)
}

func isShort(err error) bool {
	return err != nil && (err == io.ErrShortWrite || errors.Is(err, io.ErrShortWrite))
}

// accepts: the library's answer against the model's primary answer and its latitude.
func accepts(gn int, gerr error, wn int, werr error, lat latitude) bool {
	if gn != wn && !(lat.hi > 0 && lat.lo <= gn && gn <= lat.hi) {
		return false
	}
	switch lat.rule {
	case ruleNoShort:
		return !isShort(gerr)
	case ruleAny:
		return true
	}
	if sameErr(gerr, werr) {
		return true
	}
	if lat.altErr != nil && sameErr(gerr, lat.altErr) {
		return true
	}
	return lat.nilOK && gerr == nil
}

// invalidWhence: none of these is io.SeekStart, io.SeekCurrent or io.SeekEnd.
var invalidWhence = []int{3, 4, 5, 7, 8, 16, 100, 255, 256, 257, 258, 259, 512, 513, 65536, 65537, 65538, 1 << 24, 1<<24 + 1, 1 << 31, 1<<31 + 2,
	1 << 32, 1<<32 + 1, 1<<32 + 2, 1 << 40, 1<<62 + 1, math.MaxInt, math.MaxInt - 1, -1, -2, -3, -254, -255, -256, -257, -65536, -65535, -65534,
	-(1 << 32), -(1 << 32) + 1, -(1 << 32) + 2, math.MinInt, math.MinInt + 1, math.MinInt + 2}

func (m *model) seek(offset int64, whence int) (int64, bool) {
	var target int64
	switch whence {
	case io.SeekStart:
		target = m.base + offset
	case io.SeekCurrent:
		target = m.cur + offset
	case io.SeekEnd:
		// relative to the end of the writer's own section (for a stacked writer that may lie beyond the
		// point where the inner section ends, which only limits what can be written)
		end := m.limit
		if m.ownEnd != 0 {
			end = m.ownEnd
		}
		target = end + offset
	default:
		return 0, false
	}
	if target < m.base {
		return 0, false
	}
	m.cur = target
	return target - m.base, true
}

// ---------------------------------------------------------------- check

// bounded2: kinds with a real end (AtToWriter and AtToWriter-over-a-section have "no practical end" of their own).
func bounded2(kind string) bool { return kind == "section" || kind == "nested-section" }

func sameErr(got, want error) bool {
	if want == nil {
		return got == nil
	}
	return got != nil && (got == want || errors.Is(got, want))
}

func check(c Case) *vk.Failure {
	rec := &recorder{img: newImage(), fault: c.Fault}
	m := modelFor(c)
	var w io.Writer
	secOff, secN := c.Off, c.N // the section the writer under test must stay inside, and what Size must report
	if c.Kind == "nested-section" || c.Kind == "nested-at" {
		// a writer stacked on an inner SectionWriter: it behaves like one section that starts at
		// Off+Off2 and ends where the first of the two ends
		var inner *iohelper.SectionWriter
		if f := vk.Try("NewSectionWriter(inner)", func() { inner = iohelper.NewSectionWriter(rec, c.Off, c.N) }); f != nil {
			return f
		}
		if c.Kind == "nested-section" {
			if f := vk.Try("NewSectionWriter(outer over inner)", func() { w = iohelper.NewSectionWriter(inner, c.Off2, c.N2) }); f != nil {
				return f
			}
			secN = c.N2
		} else {
			if f := vk.Try("AtToWriter(inner section)", func() { w = iohelper.AtToWriter(inner, c.Off2) }); f != nil {
				return f
			}
		}
		secOff = c.Off + c.Off2
	} else if c.Kind == "section" {
		if f := vk.Try("NewSectionWriter", func() { w = iohelper.NewSectionWriter(rec, c.Off, c.N) }); f != nil {
			return f
		}
	} else {
		if f := vk.Try("AtToWriter", func() { w = iohelper.AtToWriter(rec, c.Off) }); f != nil {
			return f
		}
	}
	seeker, _ := w.(io.Seeker)
	wat, _ := w.(io.WriterAt)
	sizer, _ := w.(interface{ Size() int64 })
	sized := c.Kind == "section" || c.Kind == "nested-section"
	bounded := c.Kind != "attowriter"
	if sized && (seeker == nil || wat == nil || sizer == nil) {
		return vk.Failf("api", "SectionWriter lacks Seek/WriteAt/Size")
	}

	for si, op := range c.Ops {
		step := fmt.Sprintf("step %d %+v (section off=%d n=%d kind=%s fault=%+v)", si, op, c.Off, c.N, c.Kind, c.Fault)
		callsBefore := len(rec.calls)
		switch op.K {
		case "write":
			if m.tooFar() {
				continue // "no practical end": a cursor next to MaxInt64 is outside what AtToWriter promises
			}
			keep := pattern(si, op.Len)
			buf, tail := argument(c, si, keep)
			wn, werr, lat := m.write(op.Len)
			var gn int
			var gerr error
			if f := vk.Try(step, func() { gn, gerr = w.Write(buf) }); f != nil {
				return f
			}
			if !accepts(gn, gerr, wn, werr, lat) {
				return vk.Failf("write-result", "%s: Write returned (%d, %v), model (%d, %v)%s", step, gn, gerr, wn, werr, lat.note())
			}
			m.settle(lat, keep, wn, gn, true)
			if string(buf) != string(keep) || !tail() {
				return vk.Failf("write-mutates", "%s: Write modified the caller's buffer (or the memory next to it)", step)
			}
		case "writeat":
			if wat == nil {
				// accepted latitude: AtToWriter is declared to return an io.Writer. What cannot be asked is counted.
				vk.Label("attowriter-without-writeat:writeat-step-skipped", 1)
				continue
			}
			if m.unbounded && (op.O > farLimit || c.Off > math.MaxInt64-farLimit-int64(op.Len)) {
				continue // "no practical end": offsets next to MaxInt64 are outside what AtToWriter promises
			}
			if !bounded2(c.Kind) && op.O > farLimit {
				continue // the same for AtToWriter over a section (the inner section refuses such offsets anyway)
			}
			keep := pattern(si, op.Len)
			buf, _ := argument(c, si, keep)
			wn, werr, lat := m.writeAt(op.Len, op.O)
			var gn int
			var gerr error
			if f := vk.Try(step, func() { gn, gerr = wat.WriteAt(buf, op.O) }); f != nil {
				return f
			}
			if lat.loose {
				// the statement is silent on negative offsets: nothing may pass through (the image comparison
				// below sees any byte that does), so the count must be 0; the error value is open
				if gn != 0 {
					return vk.Failf("writeat-negative", "%s: WriteAt at a negative offset returned count %d (err %v), want 0", step, gn, gerr)
				}
			} else if !accepts(gn, gerr, wn, werr, lat) {
				return vk.Failf("writeat-result", "%s: WriteAt returned (%d, %v), model (%d, %v)%s", step, gn, gerr, wn, werr, lat.note())
			} else {
				m.settle(lat, keep, wn, gn, false)
			}
		case "seek":
			if seeker == nil {
				// (the model's cursor is not moved either: the history goes on as a Write-only history)
				vk.Label("attowriter-without-seek:seek-step-skipped", 1)
				continue
			}
			before := m.cur
			wpos, ok := m.seek(op.O, op.Whence)
			beyond := ok && m.cur > m.sectionEnd() // io.Seeker: seeking past the end "may be allowed" - or refused
			var gpos int64
			var gerr error
			if f := vk.Try(step, func() { gpos, gerr = seeker.Seek(op.O, op.Whence) }); f != nil {
				return f
			}
			if ok && beyond && gerr != nil {
				m.cur = before // refused: the cursor must not have moved (the following writes show it)
			} else if ok {
				if gerr != nil || gpos != wpos {
					return vk.Failf("seek-result", "%s: Seek returned (%d, %v), model (%d, nil)", step, gpos, gerr, wpos)
				}
			} else {
				if gerr == nil {
					return vk.Failf("seek-accepted-invalid", "%s: Seek returned (%d, nil) for an invalid whence / a position before the start", step, gpos)
				}
				m.cur = before
			}
		case "size":
			if sizer == nil || !sized {
				continue
			}
			var g int64
			if f := vk.Try(step, func() { g = sizer.Size() }); f != nil {
				return f
			}
			if g != secN {
				return vk.Failf("size", "%s: Size() = %d, want %d", step, g, secN)
			}
		}
		// every byte that reached the underlying writer lies inside the section, where the model put it
		newCalls := rec.calls[callsBefore:]
		for _, cl := range newCalls {
			if cl.n > 0 && (cl.off < secOff || (bounded && cl.off+int64(cl.n) > m.limit)) {
				return vk.Failf("outside-section", "%s: underlying WriteAt(%d bytes at %d) lies outside [%d,%d)", step, cl.n, cl.off, secOff, m.limit)
			}
		}
		// (how many calls the bytes arrive in is not part of the property: only where they land,
		// what they are, and what is returned - compared through the memory image below)
		if at, differ := rec.img.diff(m.img); differ {
			return vk.Failf("image", "%s: the bytes that landed differ from the model at absolute offset %d (section-relative %d)", step, at, at-c.Off)
		}
		// cursor, observed without moving it (not after every step of a case with a sparse probe plan: the
		// next Write / WriteAt then follows the step directly, and shows through the image where the cursor was)
		if seeker == nil {
			vk.Label("attowriter-without-seek:cursor-assertion-skipped", 1)
		} else if probeAfter(c, si) {
			var pos int64
			var err error
			if f := vk.Try(step+" then Seek(0, SeekCurrent)", func() { pos, err = seeker.Seek(0, io.SeekCurrent) }); f != nil {
				return f
			}
			if err != nil || pos != m.cur-m.base {
				return vk.Failf("cursor", "%s: cursor is at %d (err %v), the model predicts %d", step, pos, err, m.cur-m.base)
			}
		}
		if sizer != nil && sized {
			if g := sizer.Size(); g != secN {
				return vk.Failf("size", "%s: Size() = %d, want %d", step, g, secN)
			}
		}
	}
	return nil
}

// modelFor builds the reference model of a case (base, cursor, limit).
func modelFor(c Case) *model {
	m := &model{base: c.Off, cur: c.Off, img: newImage(), fault: c.Fault, limit: math.MaxInt64}
	switch c.Kind {
	case "section":
		m.limit = c.Off + c.N
	case "nested-section", "nested-at":
		// a writer stacked on an inner SectionWriter [Off, Off+N): it behaves like one section that starts
		// at Off+Off2 and ends where the first of the two ends
		m.base, m.cur = c.Off+c.Off2, c.Off+c.Off2
		m.limit = c.Off + c.N
		if c.Kind == "nested-section" {
			m.ownEnd = c.Off + c.Off2 + c.N2
			if m.ownEnd < m.limit {
				m.limit = m.ownEnd
			}
		} else {
			m.ownEnd = math.MaxInt64 // AtToWriter's own section has no practical end: only the inner section refuses
		}
	default:
		m.unbounded = true
	}
	return m
}

func classify(c Case) (bool, []string) {
	labels := []string{"kind:" + c.Kind, "fault:" + c.Fault.Kind}
	if c.Kind == "section" && c.N == 0 {
		labels = append(labels, "n=0")
	}
	if c.N > 64 {
		labels = append(labels, fmt.Sprintf("n:2^%d..", bits.Len64(uint64(c.N))-1))
	}
	switch c.Off {
	case 0, 1, 7, 100, 509, 4094, 1<<32 + 5, 1 << 62:
	default:
		labels = append(labels, "off:other")
	}
	// replay the model alone
	m := modelFor(c)
	writes, disturbed, nt := 0, false, false
	trunc, failed, seeks, far, late, silent, long := false, false, false, false, false, false, false
	// direct: the previous step was a Seek / a truncated or failed write and the cursor was NOT observed after it
	directSeek, directBad, seekThenWrite, badThenWrite := false, false, false, false
	reach := int64(0) // writers without an end of their own: how far Write ALONE (no Seek accepted so far) carried the cursor
	for si, op := range c.Ops {
		if op.K == "write" {
			seekThenWrite, badThenWrite = seekThenWrite || directSeek, badThenWrite || directBad
		}
		if op.K != "size" {
			directSeek, directBad = false, false
		}
		switch op.K {
		case "write", "writeat":
			var n int
			var err error
			var lat latitude
			at := m.cur - m.base
			if op.K == "write" {
				if m.tooFar() {
					continue
				}
				n, err, lat = m.write(op.Len)
			} else {
				if !bounded2(c.Kind) && op.O > farLimit {
					continue
				}
				n, err, lat = m.writeAt(op.Len, op.O)
				at = op.O
			}
			if writes >= 1 && disturbed {
				nt = true
			}
			writes++
			if err == io.ErrShortWrite {
				trunc, disturbed = true, true
			} else if err != nil {
				failed, disturbed = true, true
			}
			if lat.fired == "shortnil" {
				silent, disturbed = true, true
			}
			directBad = (err != nil || lat.fired != "") && !probeAfter(c, si)
			if op.K == "write" && !bounded2(c.Kind) && !seeks && n > 0 {
				reach = m.cur - m.base
			}
			late = late || lat.fired == "fullerr"
			far = far || (m.unbounded && lat.passed && at >= 1<<34)
			long = long || n > 68
		case "seek":
			if _, ok := m.seek(op.O, op.Whence); ok {
				seeks, disturbed = true, true
				directSeek = !probeAfter(c, si)
			}
		}
	}
	for _, l := range []struct {
		on   bool
		name string
	}{{trunc, "has-truncated-write"}, {failed, "has-underlying-error"}, {late, "has-error-with-full-count"}, {silent, "has-short-count-without-error"},
		{seeks, "has-seek"}, {seekThenWrite, "has-seek-directly-followed-by-write(no-cursor-probe-between)"},
		{badThenWrite, "has-truncated/failed-write-directly-followed-by-write(no-cursor-probe-between)"}, {c.Probe != "", "cursor-probe:" + c.Probe}, {far, "has-write-at-far-offset(>=2^34)"}, {long, "has-write-longer-than-68-bytes"}} {
		if l.on {
			labels = append(labels, l.name)
		}
	}
	if reach >= 1<<20 {
		labels = append(labels, fmt.Sprintf("no-end-writer-reached-by-write-alone:2^%d..", bits.Len64(uint64(reach))-1))
	}
	return writes >= 2 && nt, labels
}

// ---------------------------------------------------------------- generator

// logUniform draws a magnitude whose exponent is uniform in [loExp, hiExp]: 2^e-1, 2^e, 2^e+1 or a
// uniform value of [2^e, 2^(e+1)). The result is below 2^(hiExp+1).
func logUniform(t *rapid.T, loExp, hiExp int, label string) int64 {
	e := uint(loExp + gen.Uniform(t, hiExp-loExp+1, label+".exp"))
	switch gen.Uniform(t, 5, label+".shape") {
	case 0:
		return int64(1) << e
	case 1:
		return int64(1)<<e - 1
	case 2:
		return int64(1)<<e + 1
	default:
		return int64(1)<<e + int64(gen.U64(t, label+".m")%(uint64(1)<<e))
	}
}

func genCase(t *rapid.T) Case {
	c := Case{Kind: "section"}
	c.Off = rapid.SampledFrom([]int64{0, 1, 7, 100, 1<<32 + 5, 1 << 62, 509, 4094}).Draw(t, "off")
	if gen.Chance(t, 1, 6, "anyoff") {
		c.Off = logUniform(t, 0, 60, "offv") // < 2^61
	}
	c.N = rapid.SampledFrom([]int64{0, 1, 2, 8, 64, 8, 64}).Draw(t, "n")
	if gen.Chance(t, 1, 6, "anyn") { // no holes between the small lengths and the fixed histories of the grid
		c.N = logUniform(t, 0, 13, "nv")
	}
	var far int64 // AtToWriter: the history plays around this section-relative position
	if gen.Chance(t, 1, 6, "attowriter") {
		c.Kind, c.N = "attowriter", 0
		if gen.Chance(t, 2, 5, "far") {
			far = min(logUniform(t, 34, 60, "farv"), farLimit)
			if gen.Chance(t, 1, 8, "far61") {
				far = farLimit - int64(gen.Uniform(t, 70, "back"))
			}
		}
	} else if gen.Chance(t, 1, 5, "nested") { // a writer stacked on a SectionWriter
		c.Kind = []string{"nested-section", "nested-at"}[gen.Uniform(t, 2, "nestkind")]
		c.Off2 = int64(gen.Uniform(t, int(c.N)+3, "off2"))
		c.N2 = int64(gen.Uniform(t, int(c.N)+4, "n2"))
	}
	span := c.N
	if c.Kind == "attowriter" {
		span = 64
	}
	switch gen.Uniform(t, 7, "fault") {
	case 0:
		c.Fault = Fault{Kind: "capacity", C: c.Off + far - 1 + int64(gen.Uniform(t, int(span)+4, "cap"))}
	case 1:
		c.Fault = Fault{Kind: "oneshot", C: c.Off + far + int64(gen.Uniform(t, int(span)+2, "trip"))}
	case 2:
		c.Fault = Fault{Kind: "fullerr", C: c.Off + far + int64(gen.Uniform(t, int(span)+2, "trip"))}
	case 3:
		c.Fault = Fault{Kind: "shortnil", C: c.Off + far + int64(gen.Uniform(t, int(span)+2, "trip"))}
	default:
		c.Fault = Fault{Kind: "none"}
	}
	n := 1 + gen.Len(t, vk.Pick(39, 199), "steps")
	// the generator follows the cursor with its own copy of the model so that it can aim at the limit
	m := modelFor(c)
	unbounded := c.Kind == "attowriter" || c.Kind == "nested-at"
	for i := 0; i < n; i++ {
		var op Op
		if far != 0 && i == 0 {
			op = Op{K: "seek", O: far, Whence: 0}
			m.seek(far, 0)
			c.Ops = append(c.Ops, op)
			continue
		}
		switch gen.Uniform(t, 10, "op") {
		case 0, 1, 2, 3:
			room := m.limit - m.cur
			if c.Kind == "attowriter" || room < 0 || room > 1<<14 {
				room = int64(gen.Uniform(t, 20, "room"))
			}
			var l int64
			switch gen.Uniform(t, 7, "lclass") {
			case 0:
				l = 0
			case 1:
				l = 1
			case 2:
				l = room // exactly to the limit
			case 3:
				l = room + 1 + int64(gen.Uniform(t, 3, "over")) // crossing it
			case 4:
				l = max(room-1, 0)
			case 5:
				l = logUniform(t, 0, 13, "ll") // any length up to 2^14
			default:
				l = int64(gen.Uniform(t, int(span)+4, "l"))
			}
			op = Op{K: "write", Len: int(l)}
			if !m.tooFar() {
				m.write(int(l))
			}
		case 4, 5, 6:
			o := int64(gen.Uniform(t, int(span)+6, "o")) - 2
			room := span - o
			var l int64
			switch gen.Uniform(t, 6, "lclass") {
			case 0:
				l = 0
			case 1:
				l = max(room, 0)
			case 2:
				l = max(room+1, 1)
			case 3:
				l = logUniform(t, 0, 13, "ll")
			default:
				l = int64(gen.Uniform(t, int(span)+4, "l"))
			}
			o += far
			if gen.Chance(t, 1, 15, "extreme") { // the largest offsets an int64 holds
				o = []int64{math.MaxInt64, math.MaxInt64 - 1, math.MaxInt64 - c.Off, math.MaxInt64 - c.Off - 1, math.MaxInt64 - c.Off + 1, 1 << 62, math.MinInt64}[gen.Uniform(t, 7, "exto")]
			} else if unbounded && gen.Chance(t, 1, 8, "faro") { // "no practical end": a lone write far away
				o = min(logUniform(t, 34, 60, "farov"), farLimit)
			}
			op = Op{K: "writeat", Len: int(l), O: o}
			if bounded2(c.Kind) || o <= farLimit {
				m.writeAt(int(l), o)
			}
		case 7, 8:
			wh := rapid.SampledFrom([]int{0, 0, 1, 1, 2, 2, 3, -1}).Draw(t, "whence")
			if gen.Chance(t, 1, 8, "whence-odd") {
				// invalid whence values of every magnitude and sign, among them those whose low byte / low 16 / low 32 bits
				// spell a valid one (256, 257, 258, 65536+1, 1<<32+2, -256 ...) and the extremes
				wh = invalidWhence[gen.Uniform(t, len(invalidWhence), "whence-invalid")]
			}
			off := int64(gen.Uniform(t, int(2*span)+7, "so")) - span - 3
			if gen.Chance(t, 1, 12, "farjump") {
				off = 1 << 33
			}
			if unbounded && wh == 2 {
				wh = 1 // SeekEnd on an unbounded writer is relative to MaxInt64: outside the domain generated here
			}
			if wh == 0 && off != 1<<33 {
				off += far
			}
			op = Op{K: "seek", O: off, Whence: wh}
			m.seek(off, wh)
		default:
			op = Op{K: "size"}
		}
		c.Ops = append(c.Ops, op)
	}
	// when the cursor is observed (drawn last: the histories of a given seed stay what they were)
	c.Probe = []string{"", "", "", "", "sparse", "end"}[gen.Uniform(t, 6, "probe")]
	return c
}

func TestRegress(t *testing.T) { checker.Regress(t) }

func TestProp(t *testing.T) { checker.Prop(t, genCase) }

// FuzzProp: the same generator driven by the native coverage-guided fuzzer (thorough tier only).
func FuzzProp(f *testing.F) { checker.Fuzz(f, genCase) }

// TestGrid: a few fixed histories (the two cited survivors' minimal witnesses among them).
func TestGrid(t *testing.T) {
	vk.SetPhase("grid")
	// every invalid whence, in the middle of a history: the Seek is refused and the cursor stays where it was
	for _, wh := range invalidWhence {
		checker.Run(t, Case{Kind: "section", Off: 4, N: 20, Fault: Fault{Kind: "none"}, Ops: []Op{{K: "write", Len: 3}, {K: "seek", O: 2, Whence: wh}, {K: "write", Len: 2}, {K: "seek", O: 0, Whence: 1}, {K: "seek", O: -1, Whence: wh}, {K: "write", Len: 1}, {K: "size"}}})
		// the same with no cursor observation between the steps: the refused Seek is followed directly by the Write
		checker.Run(t, Case{Kind: "section", Off: 4, N: 20, Fault: Fault{Kind: "none"}, Probe: "end", Ops: []Op{{K: "write", Len: 3}, {K: "seek", O: 2, Whence: wh}, {K: "write", Len: 2}, {K: "seek", O: 1, Whence: 1}, {K: "seek", O: -1, Whence: wh}, {K: "write", Len: 1}, {K: "size"}}})
	}
	fixed := []Case{
		{Kind: "section", Off: 7, N: 8, Fault: Fault{Kind: "none"}, Ops: []Op{{K: "write", Len: 3}, {K: "write", Len: 3}, {K: "write", Len: 3}, {K: "write", Len: 1}}},
		{Kind: "section", Off: 100, N: 8, Fault: Fault{Kind: "none"}, Ops: []Op{{K: "seek", O: 2, Whence: 0}, {K: "write", Len: 2}, {K: "seek", O: -1, Whence: 1}, {K: "write", Len: 9}, {K: "seek", O: -3, Whence: 2}, {K: "write", Len: 1}}},
		{Kind: "section", Off: 1, N: 64, Fault: Fault{Kind: "capacity", C: 10}, Ops: []Op{{K: "write", Len: 5}, {K: "write", Len: 10}, {K: "write", Len: 1}, {K: "writeat", Len: 4, O: 7}}},
		{Kind: "attowriter", Off: 1<<32 + 5, Fault: Fault{Kind: "oneshot", C: 1<<32 + 5 + 9}, Ops: []Op{{K: "write", Len: 5}, {K: "write", Len: 10}, {K: "write", Len: 1}, {K: "seek", O: 3, Whence: 0}, {K: "write", Len: 2}}},
		{Kind: "attowriter", Off: 1 << 62, Fault: Fault{Kind: "none"}, Ops: []Op{{K: "write", Len: 5}, {K: "write", Len: 10}, {K: "writeat", Len: 4, O: 1 << 40}, {K: "write", Len: 2}}}, // far start, still "no practical end"
		{Kind: "section", Off: 0, N: 0, Fault: Fault{Kind: "none"}, Ops: []Op{{K: "write", Len: 0}, {K: "write", Len: 1}, {K: "writeat", Len: 0, O: 0}, {K: "seek", O: 0, Whence: 2}, {K: "size"}}},
		// writers stacked on a SectionWriter whose start is not 0
		{Kind: "nested-at", Off: 40, N: 24, Off2: 8, Fault: Fault{Kind: "none"}, Ops: []Op{{K: "write", Len: 10}, {K: "write", Len: 10}, {K: "write", Len: 1}, {K: "writeat", Len: 30, O: 2}}},
		{Kind: "nested-at", Off: 40, N: 24, Off2: 30, Fault: Fault{Kind: "none"}, Ops: []Op{{K: "write", Len: 3}, {K: "writeat", Len: 3, O: 0}}},
		{Kind: "nested-section", Off: 7, N: 64, Off2: 60, N2: 16, Fault: Fault{Kind: "none"}, Ops: []Op{{K: "write", Len: 3}, {K: "write", Len: 3}, {K: "seek", O: -2, Whence: 2}, {K: "write", Len: 5}, {K: "size"}}},
		{Kind: "section", Off: 9, N: 16, Fault: Fault{Kind: "none"}, Ops: []Op{{K: "writeat", Len: 16, O: math.MaxInt64}, {K: "writeat", Len: 4, O: math.MaxInt64 - 9}, {K: "writeat", Len: 4, O: math.MaxInt64 - 8}, {K: "write", Len: 2}}},
		// buffers of several MiB (size thresholds of any chunked implementation), also truncated by the section end and by a full device
		{Kind: "section", Off: 7, N: 5 << 20, Fault: Fault{Kind: "none"}, Ops: []Op{{K: "write", Len: 1<<20 + 1}, {K: "write", Len: 2<<20 + 5}, {K: "writeat", Len: 1<<20 + 3, O: 100}, {K: "seek", O: -10, Whence: 2}, {K: "write", Len: 3 << 20}}},
		{Kind: "attowriter", Off: 100, Fault: Fault{Kind: "capacity", C: 100 + 2<<20 + 17}, Ops: []Op{{K: "write", Len: 1 << 20}, {K: "write", Len: 1<<20 + 1}, {K: "write", Len: 1 << 20}, {K: "write", Len: 5}}},
		{Kind: "section", Off: 1, N: 3<<20 + 9, Fault: Fault{Kind: "oneshot", C: 1 + 1<<20 + 77}, Ops: []Op{{K: "write", Len: 65539}, {K: "write", Len: 2 << 20}, {K: "write", Len: 2 << 20}, {K: "writeat", Len: 4 << 20, O: 3}}},
		// an underlying error that comes with a COMPLETE count (Write and WriteAt, also truncated, also through AtToWriter and stacked writers)
		{Kind: "section", Off: 2, N: 8, Fault: Fault{Kind: "fullerr", C: 4}, Ops: []Op{{K: "write", Len: 4}, {K: "write", Len: 2}, {K: "write", Len: 5}}},
		{Kind: "section", Off: 2, N: 8, Fault: Fault{Kind: "fullerr", C: 9}, Ops: []Op{{K: "write", Len: 4}, {K: "write", Len: 9}, {K: "writeat", Len: 1, O: 7}}},
		{Kind: "section", Off: 2, N: 8, Fault: Fault{Kind: "fullerr", C: 5}, Ops: []Op{{K: "writeat", Len: 4, O: 1}, {K: "writeat", Len: 4, O: 1}, {K: "write", Len: 3}}},
		{Kind: "section", Off: 2, N: 8, Fault: Fault{Kind: "fullerr", C: 8}, Ops: []Op{{K: "writeat", Len: 9, O: 3}, {K: "write", Len: 3}}},
		{Kind: "attowriter", Off: 100, Fault: Fault{Kind: "fullerr", C: 103}, Ops: []Op{{K: "write", Len: 3}, {K: "write", Len: 3}, {K: "write", Len: 3}}},
		{Kind: "nested-at", Off: 40, N: 24, Off2: 8, Fault: Fault{Kind: "fullerr", C: 50}, Ops: []Op{{K: "write", Len: 10}, {K: "write", Len: 10}, {K: "writeat", Len: 3, O: 1}}},
		{Kind: "nested-section", Off: 7, N: 64, Off2: 60, N2: 16, Fault: Fault{Kind: "fullerr", C: 70}, Ops: []Op{{K: "write", Len: 3}, {K: "write", Len: 3}, {K: "write", Len: 3}}},
		// an underlying writer that stores fewer bytes and reports no error, also (0, nil): fitting requests, truncated ones, stacked writers
		{Kind: "section", Off: 2, N: 8, Fault: Fault{Kind: "shortnil", C: 4}, Ops: []Op{{K: "write", Len: 4}, {K: "write", Len: 2}, {K: "write", Len: 5}}},
		{Kind: "section", Off: 2, N: 8, Fault: Fault{Kind: "shortnil", C: 2}, Ops: []Op{{K: "write", Len: 4}, {K: "write", Len: 4}, {K: "write", Len: 5}}},
		{Kind: "section", Off: 2, N: 8, Fault: Fault{Kind: "shortnil", C: 5}, Ops: []Op{{K: "writeat", Len: 4, O: 1}, {K: "writeat", Len: 4, O: 1}, {K: "write", Len: 3}}},
		{Kind: "section", Off: 2, N: 8, Fault: Fault{Kind: "shortnil", C: 5}, Ops: []Op{{K: "writeat", Len: 1, O: 3}, {K: "write", Len: 3}}},
		{Kind: "section", Off: 2, N: 8, Fault: Fault{Kind: "shortnil", C: 8}, Ops: []Op{{K: "write", Len: 3}, {K: "write", Len: 9}, {K: "write", Len: 9}, {K: "writeat", Len: 9, O: 4}}},
		{Kind: "section", Off: 2, N: 8, Fault: Fault{Kind: "shortnil", C: 8}, Ops: []Op{{K: "writeat", Len: 9, O: 3}, {K: "write", Len: 3}}},
		{Kind: "attowriter", Off: 100, Fault: Fault{Kind: "shortnil", C: 104}, Ops: []Op{{K: "write", Len: 3}, {K: "write", Len: 3}, {K: "write", Len: 3}}},
		{Kind: "nested-at", Off: 40, N: 24, Off2: 8, Fault: Fault{Kind: "shortnil", C: 50}, Ops: []Op{{K: "write", Len: 10}, {K: "write", Len: 10}, {K: "writeat", Len: 3, O: 1}}},
		{Kind: "nested-at", Off: 40, N: 24, Off2: 8, Fault: Fault{Kind: "shortnil", C: 60}, Ops: []Op{{K: "write", Len: 10}, {K: "write", Len: 10}, {K: "write", Len: 1}}}, // cut by the inner section only
		{Kind: "nested-section", Off: 7, N: 64, Off2: 60, N2: 16, Fault: Fault{Kind: "shortnil", C: 69}, Ops: []Op{{K: "write", Len: 3}, {K: "write", Len: 3}, {K: "write", Len: 3}}},
	}
	for _, c := range fixed {
		checker.Run(t, c)
	}
	// the fixed histories again (those with small buffers), the cursor observed after some steps only / after the last one only:
	// a Seek, a truncated Write, a failed Write is then followed DIRECTLY by the next Write
	for _, c := range fixed {
		if c.N > 1<<16 || c.Ops[0].Len >= 1<<16 {
			continue
		}
		for _, pr := range []string{"sparse", "end"} {
			c.Probe = pr
			checker.Run(t, c)
		}
	}
	// "no practical end" through Write ALONE (what is left if the value AtToWriter returns offers no Seek / WriteAt): a few
	// large Writes carry the cursor beyond 2^24 (thorough: 2^26), from a near and from a far start, also up to a full
	// device, and through AtToWriter over a section that ends only there
	{
		u := vk.Pick(2<<20, 8<<20) // 9u+6 bytes in all
		lens := []Op{{K: "write", Len: 2*u + 1}, {K: "write", Len: 3 * u}, {K: "write", Len: 3*u + 5}, {K: "write", Len: u}, {K: "write", Len: 7}}
		total := int64(9*u + 6)
		for _, c := range []Case{
			{Kind: "attowriter", Off: 100, Fault: Fault{Kind: "none"}},
			{Kind: "attowriter", Off: 1 << 62, Fault: Fault{Kind: "capacity", C: 1<<62 + total - 3}, Probe: "end"},
			{Kind: "nested-at", Off: 1<<32 + 5, N: 11 + total - 2, Off2: 11, Fault: Fault{Kind: "none"}, Probe: "sparse"},
		} {
			c.Ops = lens
			checker.Run(t, c)
		}
	}
	// "no practical end": AtToWriter around every far section-relative position 2^e (Write through the cursor and WriteAt)
	for e := uint(34); e <= 61; e++ {
		f := int64(1) << e
		for _, off := range []int64{0, 1<<32 + 5, 1 << 62} {
			c := Case{Kind: "attowriter", Off: off, Fault: Fault{Kind: "none"}, Ops: []Op{
				{K: "writeat", Len: 5, O: f - 7}, {K: "writeat", Len: 4, O: f - 2}, {K: "seek", O: f - 3, Whence: 0}, {K: "write", Len: 2}, {K: "write", Len: 3}, {K: "write", Len: 1},
				{K: "seek", O: -(f / 2), Whence: 1}, {K: "write", Len: 2}, {K: "seek", O: f/2 + 100, Whence: 1}, {K: "write", Len: 3}, {K: "writeat", Len: 2, O: f}}}
			if e%3 == 0 {
				c.Fault = Fault{Kind: "oneshot", C: off + f}
			}
			checker.Run(t, c)
			c.Probe = []string{"end", "sparse"}[e%2] // each far Seek followed directly by the Write
			checker.Run(t, c)
		}
	}
	// every section length 2^k-1, 2^k, 2^k+1 and two more in each octave, under every fault kind, with a history
	// whose buffers are of the order of the section (a third, a half, a quarter, beyond the end)
	for k := uint(1); k <= uint(vk.Pick(20, 22)); k++ {
		sizes := []int64{1<<k - 1, 1 << k, 1<<k + 1}
		for j := uint64(0); j < 2; j++ {
			sizes = append(sizes, 1<<k+int64(vk.Mix(uint64(k)*16+j)%(1<<k)))
		}
		for si, n := range sizes {
			off := []int64{7, 509, 0, 1<<32 + 5, 4094}[(int(k)+si)%5]
			for fi, flt := range []Fault{{Kind: "none"}, {Kind: "oneshot", C: off + n - 2}, {Kind: "shortnil", C: off + n/2 + 1}, {Kind: "fullerr", C: off + n - 1}, {Kind: "capacity", C: off + n - 1},
				{Kind: "shortnil", C: off + n - 1}, {Kind: "fullerr", C: off + n/3}} {
				if !vk.Thorough() && (k > 12 && (fi+si)%2 == 1 || k > 16 && !(si >= 2 && si <= 3 && fi == []int{0, 3, 2, 6}[(int(k)+si)%4])) {
					continue // the quick tier thins the large sizes out: every second combination above 2^12, two histories per octave above 2^16
				}
				checker.Run(t, Case{Kind: "section", Off: off, N: n, Fault: flt, Ops: []Op{
					{K: "write", Len: int(n / 3)}, {K: "writeat", Len: int(n/2 + 1), O: n / 2}, {K: "seek", O: -(n / 4), Whence: 2}, {K: "write", Len: int(n / 4)}, {K: "write", Len: 1},
					{K: "seek", O: 1, Whence: 0}, {K: "write", Len: int(n + 5)}, {K: "seek", O: n / 3, Whence: 0}, {K: "write", Len: int(n/3 + 1)}, {K: "size"}}})
			}
		}
	}
}

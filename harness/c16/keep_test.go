package c16

// Second pass (review 2): what the library RETURNED is looked at again after later calls.
//
//   - the []int32 of FirstDiffBits, up to three verified (min, counters) results of CountPrefixes per
//     case and the SigBits object stay under watch for the next cases (checker.Keep): the slices must
//     still read as they did when they were returned, and the same (s,e,m) on the kept object must give
//     the same answer after other objects were built and queried. Nothing here needs an oracle: the
//     statement fixes one answer per query, so an answer that differs from the (already verified) first
//     one is wrong whichever of the two is.
//   - the spare capacity of every returned slice is overwritten first (what a caller's append does).
//   - latitude: a SigBits may keep (share memory with) its ARGUMENT list. The object that is kept across
//     cases is therefore never one built on the reused scratch list (later cases overwrite that list);
//     of those cases only the returned slices are kept.

import (
	"fmt"

	"github.com/openacid/low/sigbits"

	"verif/harness/vk"
)

var keep func(func() string)

func init() { keep = checker.Keep }

const (
	keptCostMax  = 2048    // (e-s)+m of a query that is repeated after every later case
	keptFullRead = 1 << 14 // longer kept slices are re-read at their start, their end and a stride
)

type keptResult struct {
	s, e, m int32
	gm      int32
	gc      []int32 // the slice the library returned
	want    []int32 // private copy of what it held when it was returned
	idx     int
	rank    uint64
}

// caseKeep collects, while one case is being checked, the results that go under watch: the first
// eligible one, the one of smallest rank (a pure function of the case) and the last one.
type caseKeep struct {
	salt              uint64
	seen              int
	first, best, last *keptResult
}

var curKeep *caseKeep

// noteResult is called for every CountPrefixes answer that passed its checks.
func noteResult(s, e, m int, gm int32, gc []int32) {
	vk.ScribbleI32(gc)
	ck := curKeep
	if ck == nil || (e-s)+m > keptCostMax {
		return
	}
	r := &keptResult{s: int32(s), e: int32(e), m: int32(m), gm: gm, gc: gc, want: append([]int32(nil), gc...), idx: ck.seen, rank: vk.Mix(ck.salt + uint64(ck.seen)*0x9e3779b97f4a7c15)}
	ck.seen++
	if ck.first == nil {
		ck.first = r
	}
	if ck.best == nil || r.rank < ck.best.rank {
		ck.best = r
	}
	ck.last = r
}

// results: at most three distinct ones.
func (ck *caseKeep) results() []keptResult {
	var out []keptResult
	for _, r := range []*keptResult{ck.first, ck.best, ck.last} {
		dup := r == nil
		for _, o := range out {
			dup = dup || o.idx == r.idx
		}
		if !dup {
			out = append(out, *r)
		}
	}
	return out
}

func sameI32(got, want []int32) int {
	if len(got) != len(want) {
		return 0
	}
	n := len(want)
	if n <= keptFullRead {
		for i := range want {
			if got[i] != want[i] {
				return i
			}
		}
		return -1
	}
	for i := 0; i < 4096; i++ {
		if got[i] != want[i] {
			return i
		}
	}
	for i := n - 1024; i < n; i++ {
		if got[i] != want[i] {
			return i
		}
	}
	for i := 4096; i < n-1024; i += 61 {
		if got[i] != want[i] {
			return i
		}
	}
	return -1
}

// requery repeats the kept queries on sb; "" when every answer equals the first one.
func requery(sb *sigbits.SigBits, nkeys int, results []keptResult, when string) string {
	for _, r := range results {
		var gm int32
		var gc []int32
		if f := vk.Try("CountPrefixes repeated", func() { gm, gc = sb.CountPrefixes(r.s, r.e, r.m) }); f != nil {
			return fmt.Sprintf("CountPrefixes(%d,%d,%d) on a SigBits of %d keys, repeated %s: %s", r.s, r.e, r.m, nkeys, when, f.Msg)
		}
		if gm != r.gm {
			return fmt.Sprintf("CountPrefixes(%d,%d,%d) on a SigBits of %d keys returned first result %d; repeated %s it returns %d", r.s, r.e, r.m, nkeys, r.gm, when, gm)
		}
		if at := sameI32(gc, r.want); at >= 0 {
			if len(gc) != len(r.want) {
				return fmt.Sprintf("CountPrefixes(%d,%d,%d) on a SigBits of %d keys returned %d counters; repeated %s it returns %d", r.s, r.e, r.m, nkeys, len(r.want), when, len(gc))
			}
			return fmt.Sprintf("CountPrefixes(%d,%d,%d) on a SigBits of %d keys returned counter %d = %d; repeated %s it returns %d", r.s, r.e, r.m, nkeys, at, r.want[at], when, gc[at])
		}
	}
	return ""
}

// watch registers the results of one (passed) case. ds/wd: the FirstDiffBits result and the oracle's
// values; sb: the object the queries ran on (nil: none); keys: the list it was built from; reused: that
// list is the scratch list, which later cases overwrite.
func watch(ds, wd []int32, sb *sigbits.SigBits, keys []string, reused bool, ck *caseKeep) *vk.Failure {
	nkeys := len(keys)
	var results []keptResult
	if ck != nil && sb != nil {
		results = ck.results()
	}
	// the counters returned earlier in this case, after the later calls of the same case
	for _, r := range results {
		if at := sameI32(r.gc, r.want); at >= 0 {
			return vk.Failf("count-changed-after-later-call", "CountPrefixes(%d,%d,%d) on a SigBits of %d keys returned counter %d = %d; after later CountPrefixes calls on the same object the returned slice reads %d there", r.s, r.e, r.m, nkeys, at, r.want[at], r.gc[at])
		}
	}
	// The object stays under watch only when its argument list is private to this case: an object built on
	// the reused scratch list may legitimately read that list later, and later cases overwrite it. (No second
	// object is built here for those cases: the sequence of New calls - every other one on the same list
	// address with other content - is what exposes state keyed by the argument's address, seed c16-3.)
	keptSB := sb
	if len(results) == 0 || reused {
		keptSB = nil
	}
	if len(ds) == 0 && keptSB == nil {
		return nil
	}
	keep(func() string {
		if at := sameI32(ds, wd); at >= 0 {
			return fmt.Sprintf("FirstDiffBits(%d keys) returned %d at position %d, which now reads %d", nkeys, wd[at], at, ds[at])
		}
		for _, r := range results {
			if at := sameI32(r.gc, r.want); at >= 0 {
				return fmt.Sprintf("CountPrefixes(%d,%d,%d) on a SigBits of %d keys returned counter %d = %d, which now reads %d", r.s, r.e, r.m, nkeys, at, r.want[at], r.gc[at])
			}
		}
		if keptSB != nil {
			return requery(keptSB, nkeys, results, "after later cases built and queried other objects")
		}
		return ""
	})
	return nil
}

package c16

// Second generation of inputs for C16 (round 5): a compact description of strictly ascending key sets
// of ANY size with deep structure everywhere (Tree), the placement of the key bytes in memory (layout),
// and an oracle for CountPrefixes that stays affordable for long counter vectors, long keys and long
// ranges (checkCountSampled). Nothing in here shares logic with /repo: first differences come from
// firstDiff (byte loop + bit loop), counters from truncation comparisons.

import (
	"fmt"
	"sort"
	"unsafe"

	"github.com/openacid/low/sigbits"
	"pgregory.net/rapid"

	"verif/harness/gen"
	"verif/harness/vk"
)

// ---------------------------------------------------------------- Tree: strictly ascending key sets of any size

// Tree describes a strictly ascending key set as a walk: the first key is a root of Root bytes
// (shared by all keys) plus a short tail; every following key is obtained from its predecessor either
// by appending bytes (the predecessor is then a byte-prefix of it; "\0" and "\0\0" extensions give the
// NUL-suffix families) or by raising one byte behind the root and cutting / replacing what follows
// (the first difference lies in that byte, at any of its 8 bits). Positions near the end are preferred,
// so adjacent keys share almost everything, the depth of the first difference varies from pair to pair
// over the whole list, and key lengths differ. Expansion is a pure function of the spec.
type Tree struct {
	N         int    `json:"n"`
	Seed      vk.U64 `json:"seed"`
	Root      int    `json:"root,omitempty"`      // bytes of prefix common to all keys
	Tail      int    `json:"tail"`                // soft bound for the bytes behind the root
	Alpha     int    `json:"alpha,omitempty"`     // 0 all byte values (00/01/7f/80/ff boosted), 1 {00,ff,a,b}, 2 {a,b}; 1 and 2 plus what raising a byte produces
	LongEvery int    `json:"longevery,omitempty"` // k>0: only the keys at index k-1 mod k get a long (9..24 byte) extension, the others stay short
	// Deep > 0: the key at index DeepAt is its predecessor plus Deep further bytes, and the DeepRun keys after
	// it keep all of that (they differ behind it); then the walk goes back to the bytes right behind the root.
	// Sub-ranges across that stretch hold first differences that are 8*Deep bits apart.
	Deep    int `json:"deep,omitempty"`
	DeepAt  int `json:"deepat,omitempty"`
	DeepRun int `json:"deeprun,omitempty"`
}

var treeBoost = []byte{0x00, 0x01, 0x7f, 0x80, 0xff, 0x00, 0xff, 'a'}

func (tr Tree) expand() []string {
	ctr := uint64(tr.Seed)
	next := func() uint64 { ctr++; return vk.Mix(ctr) }
	newByte := func() byte {
		r := next()
		switch tr.Alpha {
		case 1:
			return []byte{0x00, 0xff, 'a', 'b', 0x00, 'a', 'b', 'a'}[r&7]
		case 2:
			return 'a' + byte(r&1)
		}
		if r%10 < 4 {
			return treeBoost[(r>>8)%uint64(len(treeBoost))]
		}
		return byte(r >> 24)
	}
	n := max(tr.N, 1)
	tail := max(tr.Tail, 1)
	root := max(tr.Root, 0)
	cur := make([]byte, root, root+tail+64)
	for i := range cur {
		cur[i] = newByte()
	}
	if r := next(); r%4 != 0 || root > 0 && r%8 < 6 {
		for k := 1 + int(r>>8)%min(tail, 4); k > 0; k-- {
			cur = append(cur, newByte())
		}
	}
	keys := make([]string, 0, n)
	keys = append(keys, string(cur))
	extend := func(r uint64) {
		k := 0
		switch (r >> 4) % 12 {
		case 0:
			cur = append(cur, 0)
			return
		case 1:
			cur = append(cur, 0, 0)
			return
		case 2:
			k = 7 + int(r>>12)%3
		case 3:
			k = 15 + int(r>>12)%3
		default:
			k = 1 + int(r>>12)%3
		}
		for ; k > 0; k-- {
			cur = append(cur, newByte())
		}
	}
	// A byte position behind the root holds about 5 raises before it reaches 0xff (255 for Alpha 0 keys that
	// are only ever raised by one): the bytes behind the root must have room for n keys, and once a leading
	// run of them is 0xff for good it counts as part of the root.
	for room := 1; room < n; room *= 4 {
		tail = max(tail, bitLen(room)/2+1)
	}
	base, shallow, deepLeft := root, 0, 0
	for len(keys) < n {
		r := next()
		if tr.Deep > 0 && len(keys) == max(tr.DeepAt, 1) {
			for k := tr.Deep; k > 0; k-- {
				cur = append(cur, newByte())
			}
			keys = append(keys, string(cur))
			shallow, base, deepLeft = base, len(cur), max(tr.DeepRun, 0)
			continue
		}
		if shallow >= 0 && tr.Deep > 0 && len(keys) > max(tr.DeepAt, 1) {
			if deepLeft == 0 {
				base, shallow = shallow, -1 // back to the bytes behind the root
			}
			deepLeft--
		}
		for base < len(cur) && cur[base] == 0xff {
			base++
		}
		if tr.LongEvery > 0 {
			if len(keys)%tr.LongEvery == tr.LongEvery-1 && len(cur)-base < 9 {
				for k := 9 + int(r>>8)%16; k > 0; k-- {
					cur = append(cur, newByte())
				}
				keys = append(keys, string(cur))
				continue
			}
		}
		over := len(cur)-base >= tail
		ext := uint64(5)
		if 2*(len(cur)-base) < tail {
			ext = 12 // a short key is mostly extended: the bytes near the root are raised rarely
		}
		if !over && r%16 < ext {
			extend(r)
			keys = append(keys, string(cur))
			continue
		}
		// raise one byte behind the root
		hi := len(cur) - 1
		if over {
			hi = min(hi, base+tail-1)
		}
		p := -1
		for q := hi; q >= base; q-- {
			if cur[q] != 0xff && next()%4 != 0 {
				p = q
				break
			}
		}
		for q := hi; p < 0 && q >= base; q-- { // the rightmost byte of the window that can be raised
			if cur[q] != 0xff {
				p = q
			}
		}
		if p < 0 {
			extend(r | 0xf0) // nothing left to raise: a longer key
			keys = append(keys, string(cur))
			continue
		}
		old := cur[p]
		var v byte
		switch (r >> 8) % 12 {
		case 0, 1, 2, 3, 4, 5:
			v = old + 1
		case 6, 7:
			v = old | (old + 1) // lowest zero bit set: the difference is that single bit
		case 8:
			v = 0xff
		default:
			v = old + 1 + byte((r>>16)%uint64(0xff-old))
		}
		if tr.Alpha == 1 && r>>20&1 == 0 {
			for _, a := range []byte{'a', 'b', 0xff} {
				if a > old {
					v = a
					break
				}
			}
		}
		cur = append(cur[:p], v)
		for k := int(r>>32) % 6; k > 2; k-- { // one third of the time: a new tail of 1..3 bytes
			cur = append(cur, newByte())
		}
		keys = append(keys, string(cur))
	}
	return keys
}

// strictlyAscending is the domain condition of CountPrefixes, decided with the plain string order.
func strictlyAscending(keys []string) bool {
	for i := 0; i+1 < len(keys); i++ {
		if !(keys[i] < keys[i+1]) {
			return false
		}
	}
	return true
}

// ---------------------------------------------------------------- where the key bytes live

// Lay (a field of the case) says how the key VALUES are handed to the library; 0 = fresh heap strings
// (or the reused scratch list), as before round 5. Otherwise bits 0-1 select the mode:
//
//	0  every key is a substring of ONE heap buffer, separated by foreign non-zero bytes; keys at even
//	   index start at an address = offA (mod 8), keys at odd index at offB (mod 8) (bits 2-4, 5-7):
//	   offA == offB != 0 is "mutually aligned but not word aligned", offA == offB == 0 aligned
//	   substrings, offA != offB never aligned to each other
//	1  ONE buffer, keys packed back to back (what splitting a buffer gives), first key at offset offA
//	2  ONE buffer, every key at an offset (mod 8) of its own
//	3  a buffer per key (vk.ShapeStrings: half of them at an odd offset)
const (
	layTwoOffsets = 0
	layPacked     = 1
	layScattered  = 2
	layPerKey     = 3
)

func mkLay(mode, offA, offB int, salt uint64) uint64 {
	return uint64(mode&3) | uint64(offA&7)<<2 | uint64(offB&7)<<5 | 1<<8 | salt<<9
}

func layLabel(lay uint64) string {
	if lay == 0 {
		return "layout:fresh-or-reused-list"
	}
	a, b := int(lay>>2&7), int(lay>>5&7)
	switch lay & 3 {
	case layTwoOffsets:
		switch {
		case a == b && a == 0:
			return "layout:one-buffer/all-8-aligned"
		case a == b:
			return "layout:one-buffer/same-offset-not-8-aligned"
		default:
			return "layout:one-buffer/two-different-offsets"
		}
	case layPacked:
		return "layout:one-buffer/packed-back-to-back"
	case layScattered:
		return "layout:one-buffer/offset-per-key"
	}
	return "layout:buffer-per-key(vk.ShapeStrings)"
}

func addrMod8(k string) int {
	if len(k) == 0 {
		return -1
	}
	return int(uintptr(unsafe.Pointer(unsafe.StringData(k))) & 7)
}

// layout returns strings equal to keys placed as lay says. The buffer is never written after the
// strings were made (unsafe.String over it: no copy, so the addresses are the ones computed here).
func layout(keys []string, lay uint64) []string {
	mode := int(lay & 3)
	if mode == layPerKey {
		return vk.ShapeStrings(keys, lay)
	}
	offA, offB := int(lay>>2&7), int(lay>>5&7)
	pos := make([]int, len(keys))
	at := 8
	for i, k := range keys {
		switch mode {
		case layPacked:
			if i == 0 {
				at += offA
			}
		default:
			off := offA
			if i%2 == 1 {
				off = offB
			}
			if mode == layScattered {
				off = int(vk.Mix(lay+uint64(i)*0x9e37) & 7)
			}
			at++ // at least one foreign byte between two keys
			at += (off - at%8 + 8) % 8
		}
		pos[i] = at
		at += len(k)
	}
	buf := make([]byte, at+24)
	shift := int((8 - uintptr(unsafe.Pointer(&buf[0]))&7) & 7) // heap blocks of this size are 8-aligned: 0
	for j := range buf {
		buf[j] = byte(j*37+int(lay>>9))&0x7f | 1 // foreign bytes: never zero
	}
	for i, k := range keys {
		copy(buf[shift+pos[i]:], k)
	}
	whole := unsafe.String(&buf[0], len(buf))
	out := make([]string, len(keys))
	for i, k := range keys {
		out[i] = whole[shift+pos[i] : shift+pos[i]+len(k)]
	}
	return out
}

// ---------------------------------------------------------------- CountPrefixes oracle for long vectors / keys / ranges

// distinctDef: the number of distinct k-bit truncations among keys[s:e], by comparing every key with
// every earlier one (the definition).
func distinctDef(keys []string, s, e, k int) int32 {
	cnt := int32(0)
	for x := s; x < e; x++ {
		dup := false
		for y := s; y < x && !dup; y++ {
			dup = equalTrunc(keys[x], keys[y], k)
		}
		if !dup {
			cnt++
		}
	}
	return cnt
}

// distinctAdj: the same number for STRICTLY ASCENDING keys in linear time: a key between two keys (in
// string order) whose k-bit truncations are equal has that truncation too (both have >= k bits then,
// else they would be equal keys), so equal truncations are contiguous and it is enough to compare
// neighbours. Cross-checked against distinctDef on every range of at most 12 keys and in TestGrid.
func distinctAdj(keys []string, s, e, k int) int32 {
	cnt := int32(1)
	for x := s + 1; x < e; x++ {
		if !equalTrunc(keys[x-1], keys[x], k) {
			cnt++
		}
	}
	return cnt
}

// checkCountSampled decides one CountPrefixes(s,e,m) call for any m: first result, number of counters,
// every counter at or beyond the longest key of the range (= e-s: each key counts as itself and the keys
// are distinct), every counter within [1, e-s] and not below its predecessor (a longer prefix cannot have
// fewer distinct values), and the exact value of the counters at a set of indices that always holds
// 0,1,2,m-2,m-1, the two indices around every first difference and every key end of the range (of 48
// pairs / keys spread over it when it is longer), then 3..65 and pseudo-random ones as a cost budget
// allows: for m*(e-s) within the budget that is every index.
// wd are the oracle's first differences of ALL adjacent pairs of keys.
func checkCountSampled(sb *sigbits.SigBits, keys []string, wd []int32, s, e, m int, salt uint64) *vk.Failure {
	var gm int32
	var gc []int32
	if f := vk.Try(fmt.Sprintf("CountPrefixes(%d,%d,%d) on %d keys", s, e, m, len(keys)), func() { gm, gc = sb.CountPrefixes(int32(s), int32(e), int32(m)) }); f != nil {
		return f
	}
	show := func() string {
		if e-s > 12 {
			return fmt.Sprintf("%d keys, keys[s..s+3]=%.80x ... keys[e-2..e]=%.80x", len(keys), keys[s:s+3], keys[e-2:e])
		}
		return fmt.Sprintf("%d keys, keys[s:e]=%.200x", len(keys), keys[s:e])
	}
	m0 := int32(1<<31 - 1)
	for _, d := range wd[s : e-1] {
		m0 = min(m0, d)
	}
	if gm != m0 {
		return vk.Failf("count-min", "CountPrefixes(s=%d,e=%d,m=%d) on %s: first result %d, want %d", s, e, m, show(), gm, m0)
	}
	if len(gc) != m {
		return vk.Failf("count-len", "CountPrefixes(s=%d,e=%d,m=%d) returned %d counters, want %d", s, e, m, len(gc), m)
	}
	n := e - s
	maxLen := 0
	for _, k := range keys[s:e] {
		maxLen = max(maxLen, len(k))
	}
	for i := max(0, 8*maxLen-int(m0)); i < m; i++ {
		if gc[i] != int32(n) {
			return vk.Failf("count", "CountPrefixes(s=%d,e=%d,m=%d) on %s: counter %d (prefix length %d bits, no key is longer than %d bits) = %d, want %d (every key counts as itself)", s, e, m, show(), i, int(m0)+i, 8*maxLen, gc[i], n)
		}
	}
	for i := range gc {
		if gc[i] < 1 || gc[i] > int32(n) {
			return vk.Failf("count", "CountPrefixes(s=%d,e=%d,m=%d) on %s: counter %d = %d is not within [1, %d keys]", s, e, m, show(), i, gc[i], n)
		}
		if i > 0 && gc[i] < gc[i-1] {
			return vk.Failf("count", "CountPrefixes(s=%d,e=%d,m=%d) on %s: counter %d (%d-bit prefixes) = %d is below counter %d = %d", s, e, m, show(), i, int(m0)+i, gc[i], i-1, gc[i-1])
		}
	}
	// exact values
	unit := n * (1 + maxLen/256)
	if n <= 12 {
		unit = (n*n/2 + n) * (1 + maxLen/256)
	}
	budget := min(max(12000/unit, 16), 160)
	idx := make([]int, 0, budget+64)
	seen := make(map[int]struct{}, budget+64)
	add := func(i int) {
		if i < 0 || i >= m {
			return
		}
		if _, ok := seen[i]; !ok {
			seen[i] = struct{}{}
			idx = append(idx, i)
		}
	}
	if m <= budget {
		for i := 0; i < m; i++ {
			add(i)
		}
	} else {
		for _, i := range []int{0, 1, 2, m - 1, m - 2} {
			add(i)
		}
		step := 1
		if n > 48 {
			step = n / 48
		}
		first := s
		if step > 1 {
			first += int(vk.Mix(salt^0x51) % uint64(step))
		}
		for j := first; j < e; j += step {
			if j+1 < e {
				d := int(wd[j] - m0)
				add(d + 1)
				add(d)
			}
			l := 8*len(keys[j]) - int(m0)
			add(l)
			add(l - 1)
			add(l + 1)
		}
		for i := 3; i < 66 && len(idx) < budget; i++ {
			add(i)
		}
		for j := uint64(0); len(idx) < budget; j++ {
			r := vk.Mix(salt + j*0x9e3779b9)
			if j%2 == 0 {
				add(int(r % uint64(m)))
			} else { // log-uniform: small indices are where the counters change
				add(int((r >> 8) % (uint64(1) << (1 + (r&0xff)%uint64(bitLen(m))))))
			}
			if j > 4000 {
				break
			}
		}
	}
	for _, i := range idx {
		var want int32
		if n <= 12 {
			want = distinctDef(keys, s, e, int(m0)+i)
			if adj := distinctAdj(keys, s, e, int(m0)+i); adj != want {
				vk.Infra(fmt.Sprintf("C16 oracle: neighbour count %d != pairwise count %d for %d-bit prefixes of %x", adj, want, int(m0)+i, keys[s:e]))
				return nil
			}
		} else {
			want = distinctAdj(keys, s, e, int(m0)+i)
		}
		if gc[i] != want {
			return vk.Failf("count", "CountPrefixes(s=%d,e=%d,m=%d) on %s: counter %d (prefix length %d bits) = %d, want %d", s, e, m, show(), i, int(m0)+i, gc[i], want)
		}
	}
	noteResult(s, e, m, gm, gc)
	return nil
}

func bitLen(x int) int {
	n := 0
	for ; x > 0; x >>= 1 {
		n++
	}
	return max(n, 1)
}

// ---------------------------------------------------------------- generators

// logU draws a size in [0,maxv] whose magnitude (bit length) is uniform: no holes between the small
// and the largest sizes.
func logU(t *rapid.T, maxv int, label string) int {
	if maxv <= 0 {
		return 0
	}
	b := gen.Uniform(t, bitLen(maxv)+1, label+".bits") // 0..bitLen
	if b == 0 {
		return 0
	}
	lo := 1 << uint(b-1)
	hi := min(lo*2-1, maxv)
	return lo + gen.Uniform(t, hi-lo+1, label)
}

func genLay(t *rapid.T) uint64 {
	mode := gen.Uniform(t, 4, "lay.mode")
	a := gen.Uniform(t, 8, "lay.offA")
	b := a
	if gen.Chance(t, 1, 3, "lay.differ") {
		b = gen.Uniform(t, 8, "lay.offB")
	}
	return mkLay(mode, a, b, uint64(gen.Uniform(t, 1<<16, "lay.salt")))
}

// genM: every m >= 1 up to the largest the tier affords, no holes: one third 1..72 uniformly, one third
// log-uniform up to twice the longest key's bits, the rest log-uniform up to 2^16 (thorough 2^21).
func genM(t *rapid.T, keyBits int, label string) int {
	switch gen.Uniform(t, 6, label+".class") {
	case 0, 1:
		return 1 + gen.Uniform(t, 72, label)
	case 2, 3:
		return 1 + logU(t, 2*keyBits+70, label)
	case 4:
		return max(1, keyBits-4+gen.Uniform(t, 16, label)) // around "beyond every key"
	}
	return 1 + logU(t, vk.Pick(1<<16, 1<<21), label)
}

func genRange(t *rapid.T, n int, label string) (int, int) {
	l := 2 + logU(t, n-2, label+".len")
	s := 0
	switch gen.Uniform(t, 4, label+".where") {
	case 0:
		s = n - l
	case 1:
		s = min(logU(t, n-l, label+".s"), n-l)
	default:
		s = gen.Uniform(t, n-l+1, label+".s")
	}
	return s, s + l
}

func genTree(t *rapid.T) Case {
	maxN := vk.Pick(4096, 1<<15)
	budget := vk.Pick(1<<19, 1<<22) // bytes of all keys together
	spec := Tree{Seed: vk.U64(gen.U64(t, "tree.seed")), Tail: 1 + logU(t, 40, "tree.tail"), Alpha: []int{0, 0, 1, 2}[gen.Uniform(t, 4, "tree.alpha")]}
	spec.N = 2 + logU(t, maxN-2, "tree.n")
	if gen.Chance(t, 1, 2, "tree.rooted") {
		spec.Root = min(logU(t, vk.Pick(1<<13, 1<<17), "tree.root"), budget/spec.N)
	}
	if gen.Chance(t, 1, 4, "tree.mix") {
		spec.LongEvery = 2 + gen.Uniform(t, 7, "tree.longevery")
		spec.Tail = min(spec.Tail, 6)
	}
	c := Case{Tree: &spec, Sorted: true, Class: "tree"}
	if gen.Chance(t, 1, 4, "tree.deep") {
		spec.DeepAt = 1 + gen.Uniform(t, spec.N-1, "tree.deepat")
		spec.DeepRun = logU(t, 15, "tree.deeprun")
		spec.Deep = min(1+logU(t, vk.Pick(1<<13, 1<<17), "tree.deep"), budget/(spec.DeepRun+1))
	}
	bits := 8 * (spec.Root + spec.Deep + spec.Tail + 24)
	for i := 0; i < 6; i++ {
		s, e := genRange(t, spec.N, "q")
		if spec.Deep > 0 && i < 3 { // around the deep stretch
			s = max(0, spec.DeepAt-1-gen.Uniform(t, 3, "q.ds"))
			e = min(spec.N, max(s+2, spec.DeepAt+gen.Uniform(t, spec.DeepRun+3, "q.de")))
		}
		c.Queries = append(c.Queries, [3]int32{int32(s), int32(e), int32(genM(t, bits, "q.m"))})
	}
	c.Queries = append(c.Queries, [3]int32{0, int32(spec.N), int32(genM(t, bits, "q.m"))})
	return c
}

// ---------------------------------------------------------------- deterministic sweeps (TestGrid)

// sizesSweep: 2^k-1, 2^k, 2^k+1 for every k in [k0,k1] and two pseudo-random sizes in every octave.
func sizesSweep(k0, k1 uint, salt uint64) []int {
	var out []int
	for k := k0; k <= k1; k++ {
		out = append(out, 1<<k-1, 1<<k, 1<<k+1)
		if k < k1 && k >= 2 {
			for j := uint64(0); j < 2; j++ {
				out = append(out, 1<<k+2+int(vk.Mix(salt+uint64(k)*7+j)%uint64(1<<k-3)))
			}
		}
	}
	sort.Ints(out)
	return out
}

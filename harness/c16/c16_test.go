// Package c16 decides property C16: sigbits first-difference bits and prefix
// counts match the keys' bit strings.
package c16

import (
	"fmt"
	"sort"
	"testing"

	"github.com/openacid/low/sigbits"
	"pgregory.net/rapid"

	"verif/harness/gen"
	"verif/harness/model"
	"verif/harness/vk"
)

func TestMain(m *testing.M) { vk.Main(m, "C16") }

// BigKeys describes a very large strictly ascending key set compactly: key i is the 4-byte
// big-endian value of i*Stride followed by a tail chosen by i (none, one NUL, or a longer
// suffix), so that keys differ in length and the first differences vary. Expansion is a pure
// function of the spec.
type BigKeys struct {
	N      int `json:"n"`
	Stride int `json:"stride"`
}

func (b BigKeys) expand() []string {
	keys := make([]string, b.N)
	for i := range keys {
		v := uint32(i * b.Stride)
		k := []byte{byte(v >> 24), byte(v >> 16), byte(v >> 8), byte(v)}
		switch i % 5 {
		case 1:
			k = append(k, 0)
		case 3:
			k = append(k, "suffix-"...)
			k = append(k, byte(i))
		}
		keys[i] = string(k)
	}
	return keys
}

type Case struct {
	Big     *BigKeys   `json:"big,omitempty"`
	Keys    []vk.Hex   `json:"keys"`
	Sorted  bool       `json:"sorted"`            // strictly ascending: CountPrefixes is in domain
	Queries [][3]int32 `json:"queries,omitempty"` // (s, e, m) for key sets larger than allRangesUpTo
	Class   string     `json:"class,omitempty"`
}

func allRangesUpTo() int { return vk.Pick(8, 12) }

var checker = &vk.Checker[Case]{
	ID: "C16",
	Rule: "key sets built from a random prefix tree (deep shared prefixes across the 8- and 16-byte chunk boundaries, a key that is a prefix of its successor, NUL suffix families a/a\\0/a\\0\\0, empty key, bytes >= 0x80), sorted and de-duplicated; FirstDiffBits also on unsorted lists and single keys; " +
		"CountPrefixes(s,e,m) on strictly ascending sets: ALL sub-ranges with e-s>=2 when n<=8 (thorough n<=12; sampled otherwise) x m in {1,2,3,8,9,17,64} and, on three sub-ranges per case and on all sampled ones, m = total bits+5. Oracle: first differing bit by a bit loop; m0 = min over adjacent pairs in range; counter i = size of the set of (m0+i)-bit truncations compared as plain bit strings (bits+length), a shorter key counting as itself. " +
		"Grid: all sorted subsets (size 2..5) of a 14-key pool; three very large key sets (70 001, 2^18+7 and 2^19+9 keys: every adjacent pair, sub-ranges around every power-of-two index). Non-trivial: >= 3 keys sharing >= 1 byte of prefix and (a key that is a prefix of its successor, or a common prefix > 8 bytes, or a NUL-suffix pair). Distinct by hash of the case.",
	Check:    check,
	Classify: classify,
}

func firstDiff(a, b string) int32 {
	n := 8 * min(len(a), len(b))
	for k := 0; k < n; k++ {
		if model.StrBit(a, k) != model.StrBit(b, k) {
			return int32(k)
		}
	}
	return int32(n)
}

// equalTrunc reports whether the k-bit truncations of a and b are the same
// plain bit string (same length, same bits); a key shorter than k bits is
// truncated to itself.
func equalTrunc(a, b string, k int) bool {
	la, lb := min(k, 8*len(a)), min(k, 8*len(b))
	if la != lb {
		return false
	}
	full := la / 8
	if a[:full] != b[:full] {
		return false
	}
	if r := la % 8; r != 0 {
		m := byte(0xff) << uint(8-r)
		return a[full]&m == b[full]&m
	}
	return true
}

// wantCount: m0 = smallest first difference among adjacent keys in [s,e);
// counter i = number of distinct (m0+i)-bit truncations among keys[s:e].
func wantCount(keys []string, s, e, m int) (int32, []int32) {
	m0 := int32(1<<31 - 1)
	for i := s; i+1 < e; i++ {
		if d := firstDiff(keys[i], keys[i+1]); d < m0 {
			m0 = d
		}
	}
	out := make([]int32, m)
	if e-s > 64 {
		// large ranges: a set of (length, truncated bytes) instead of the quadratic pairwise comparison
		for i := 0; i < m; i++ {
			k := int(m0) + i
			set := make(map[string]struct{}, e-s)
			for _, key := range keys[s:e] {
				l := min(k, 8*len(key))
				b := []byte(key[:(l+7)/8])
				if l%8 != 0 {
					b[len(b)-1] &= 0xff << uint(8-l%8)
				}
				set[string(append(b, byte(l), byte(l>>8), byte(l>>16)))] = struct{}{}
			}
			out[i] = int32(len(set))
		}
		return m0, out
	}
	for i := 0; i < m; i++ {
		k := int(m0) + i
		cnt := 0
		for x := s; x < e; x++ {
			dup := false
			for y := s; y < x && !dup; y++ {
				dup = equalTrunc(keys[x], keys[y], k)
			}
			if !dup {
				cnt++
			}
		}
		out[i] = int32(cnt)
	}
	return m0, out
}

var smallMs = []int{1, 2, 3, 8, 9, 17, 64}

func bigM(keys []string) int {
	total := 0
	for _, k := range keys {
		total = max(total, 8*len(k))
	}
	return total + 5
}

func mValues(keys []string) []int { return append(append([]int(nil), smallMs...), bigM(keys)) }

func checkCount(sb *sigbits.SigBits, keys []string, s, e, m int) *vk.Failure {
	wm, wc := wantCount(keys, s, e, m)
	return checkCountAgainst(sb, keys, s, e, m, wm, wc)
}

func checkCountAgainst(sb *sigbits.SigBits, keys []string, s, e, m int, wm int32, wc []int32) *vk.Failure {
	wc = wc[:m]
	var gm int32
	var gc []int32
	if f := vk.Try(fmt.Sprintf("CountPrefixes(%d,%d,%d) on %d keys", s, e, m, len(keys)), func() { gm, gc = sb.CountPrefixes(int32(s), int32(e), int32(m)) }); f != nil {
		return f
	}
	if gm != wm {
		return vk.Failf("count-min", "CountPrefixes(s=%d,e=%d,m=%d) on keys %x: first result %d, want %d", s, e, m, keys, gm, wm)
	}
	if len(gc) != len(wc) {
		return vk.Failf("count-len", "CountPrefixes(s=%d,e=%d,m=%d) returned %d counters, want %d", s, e, m, len(gc), len(wc))
	}
	for i := range gc {
		if gc[i] != wc[i] {
			return vk.Failf("count", "CountPrefixes(s=%d,e=%d,m=%d) on keys %x: counter %d (prefix length %d bits) = %d, want %d; all %v want %v", s, e, m, keys, i, int(wm)+i, gc[i], wc[i], gc, wc)
		}
	}
	return nil
}

func (c Case) keyStrings() []string {
	if c.Big != nil {
		return c.Big.expand()
	}
	return vk.Strings(c.Keys)
}

var scratch vk.Scratch

func check(c Case) *vk.Failure {
	keys := c.keyStrings()
	orig := c.keyStrings()
	reused := c.Big == nil && scratch.Reuse(vk.SumStrings(orig))
	if reused {
		keys = scratch.Strings(orig) // every other case: the same backing array as earlier calls, other keys
	}
	var ds []int32
	if f := vk.Try(fmt.Sprintf("FirstDiffBits(%x)", keys), func() { ds = sigbits.FirstDiffBits(keys) }); f != nil {
		return f
	}
	if len(ds) != len(keys)-1 {
		return vk.Failf("firstdiffbits-len", "FirstDiffBits of %d keys has %d entries", len(keys), len(ds))
	}
	for i := range ds {
		if want := firstDiff(orig[i], orig[i+1]); ds[i] != want {
			return vk.Failf("firstdiffbits", "FirstDiffBits(...)[%d] for keys %x / %x = %d, want %d", i, orig[i], orig[i+1], ds[i], want)
		}
	}
	if !c.Sorted || len(keys) < 2 {
		return nil
	}
	var sb *sigbits.SigBits
	if f := vk.Try("sigbits.New", func() { sb = sigbits.New(keys) }); f != nil {
		return f
	}
	if len(keys) <= allRangesUpTo() {
		n := len(keys)
		for s := 0; s < n; s++ {
			for e := s + 2; e <= n; e++ {
				ms := smallMs
				// the long counter vector (beyond every key's length) on three sub-ranges per case
				if (s == 0 && e == n) || (s == 1 && e == n) || (s == n/3 && e == s+2+(n-s-2)/2) {
					ms = mValues(orig[s:e])
				}
				maxM := 0
				for _, m := range ms {
					maxM = max(maxM, m)
				}
				wm, wc := wantCount(orig, s, e, maxM)
				for _, m := range ms {
					if f := checkCountAgainst(sb, orig, s, e, m, wm, wc); f != nil {
						return f
					}
				}
			}
		}
	}
	for _, q := range c.Queries {
		s, e, m := int(q[0]), int(q[1]), int(q[2])
		if s < 0 || e > len(keys) || e-s < 2 || m < 1 {
			continue
		}
		if f := checkCount(sb, orig, s, e, m); f != nil {
			return f
		}
	}
	for i := range keys {
		if keys[i] != orig[i] {
			return vk.Failf("mutates", "key %d changed", i)
		}
	}
	if reused {
		if msg := scratch.Check(); msg != "" {
			return vk.Failf("argument-spare-capacity-written", "%s", msg)
		}
	}
	return nil
}

func classify(c Case) (bool, []string) {
	if c.Big != nil {
		return true, []string{"class:very-large-key-set"}
	}
	keys := vk.Strings(c.Keys)
	labels := []string{}
	if c.Class != "" {
		labels = append(labels, "class:"+c.Class)
	}
	if c.Sorted {
		labels = append(labels, "sorted")
	} else {
		labels = append(labels, "unsorted")
	}
	prefixOfNext, deep, nul, share := false, false, false, false
	for i := 0; i+1 < len(keys); i++ {
		a, b := keys[i], keys[i+1]
		d := int(firstDiff(a, b))
		if d >= 8 {
			share = true
		}
		if d > 64 {
			deep = true
		}
		if len(a) < len(b) && b[:len(a)] == a {
			prefixOfNext = true
			z := true
			for _, ch := range []byte(b[len(a):]) {
				z = z && ch == 0
			}
			nul = nul || z
		}
	}
	for _, k := range keys {
		if k == "" {
			labels = append(labels, "has-empty-key")
			break
		}
	}
	if prefixOfNext {
		labels = append(labels, "key-is-prefix-of-successor")
	}
	if deep {
		labels = append(labels, "common-prefix>8bytes")
	}
	if nul {
		labels = append(labels, "nul-suffix-pair")
	}
	if len(keys) > allRangesUpTo() {
		labels = append(labels, "large-set(sampled-ranges)")
	}
	return len(keys) >= 3 && share && (prefixOfNext || deep || nul), labels
}

func genCase(t *rapid.T) Case {
	maxKeys := vk.Pick(40, 300)
	if gen.Chance(t, 1, 6, "unsorted") {
		// FirstDiffBits does not require order: permuted / repeated keys
		pool := gen.Keys(t, 12, "pool")
		if len(pool) == 0 {
			pool = []string{"a"}
		}
		n := 1 + gen.Uniform(t, 10, "n")
		keys := make([]string, n)
		for i := range keys {
			keys[i] = pool[gen.Uniform(t, len(pool), "pick")]
		}
		return Case{Keys: vk.HexStrings(keys), Sorted: false, Class: "unsorted"}
	}
	keys := gen.Keys(t, maxKeys, "keys")
	if gen.Chance(t, 3, 4, "small") && len(keys) > allRangesUpTo() {
		// prefer small sets (every sub-range is enumerated); keep a window
		st := gen.Uniform(t, len(keys)-allRangesUpTo()+1, "start")
		keys = keys[st : st+allRangesUpTo()]
	}
	if len(keys) == 0 {
		keys = []string{""}
	}
	c := Case{Keys: vk.HexStrings(keys), Sorted: true, Class: "prefix-tree"}
	if len(keys) > allRangesUpTo() {
		mv := mValues(keys)
		for i := 0; i < 24; i++ {
			a, b := gen.Uniform(t, len(keys)+1, "a"), gen.Uniform(t, len(keys)+1, "b")
			s, e := min(a, b), max(a, b)
			if e-s < 2 {
				continue
			}
			c.Queries = append(c.Queries, [3]int32{int32(s), int32(e), int32(mv[gen.Uniform(t, len(mv), "m")])})
		}
		c.Queries = append(c.Queries, [3]int32{0, int32(len(keys)), 9}, [3]int32{1, int32(len(keys)), 64})
	}
	return c
}

func TestRegress(t *testing.T) { checker.Regress(t) }

func TestProp(t *testing.T) { checker.Prop(t, genCase) }

// FuzzProp: the fuzzer's bytes are split on 0xfe into keys, sorted and de-duplicated in the target.
func FuzzProp(f *testing.F) {
	vk.SetPhase("fuzz")
	f.Add([]byte("a\xfea\x00\xfea\x00\x00\xfeab"))
	f.Add([]byte("abcdefgh\xfeabcdefghi\xfeabcdefghijklmnopq\xfeabcdefghijklmnopr"))
	f.Add([]byte("\xfe\x00\xfe\x80\xfe\xff"))
	f.Fuzz(func(t *testing.T, data []byte) {
		if len(data) > 600 {
			return
		}
		set := map[string]struct{}{}
		cur := []byte{}
		for _, b := range data {
			if b == 0xfe {
				set[string(cur)] = struct{}{}
				cur = cur[:0]
				continue
			}
			cur = append(cur, b)
		}
		set[string(cur)] = struct{}{}
		keys := make([]string, 0, len(set))
		for k := range set {
			keys = append(keys, k)
		}
		sort.Strings(keys)
		if len(keys) > allRangesUpTo() {
			keys = keys[:allRangesUpTo()]
		}
		checker.Run(t, Case{Keys: vk.HexStrings(keys), Sorted: true, Class: "fuzz"})
	})
}

var Pool = []string{"", "a", "a\x00", "a\x00\x00", "ab", "ab\x00", "abcdefgh", "abcdefgh\x00", "abcdefghi", "abcdefgi", "abcdefghijklmnopq", "abcdefghijklmnopr", "b", "\x80", "\xff"}

func TestGrid(t *testing.T) {
	vk.SetPhase("grid")
	pool := append([]string(nil), Pool[:14]...)
	sort.Strings(pool)
	n := len(pool)
	for sub := 0; sub < 1<<uint(n); sub++ {
		var keys []string
		for i := 0; i < n; i++ {
			if sub>>uint(i)&1 == 1 {
				keys = append(keys, pool[i])
			}
		}
		if len(keys) < 2 || len(keys) > 5 {
			continue
		}
		checker.Run(t, Case{Keys: vk.HexStrings(keys), Sorted: true, Class: "grid"})
	}
	// very large key sets (size thresholds of any batched / parallel implementation): every adjacent
	// pair is compared; CountPrefixes on sub-ranges around every power-of-two index and on keyed ones
	for _, spec := range []BigKeys{{N: 1<<18 + 7, Stride: 3}, {N: 1<<19 + 9, Stride: 1}, {N: 70001, Stride: 11}} {
		spec := spec
		c := Case{Big: &spec, Sorted: true, Class: "very-large-key-set"}
		for k := uint(8); 1<<k < spec.N; k++ {
			at := int32(1 << k)
			c.Queries = append(c.Queries, [3]int32{at - 3, at + 4, 12}, [3]int32{at - 1, at + 1, 3}, [3]int32{at - 300, at + 200, 40})
			// ranges that start and end exactly on multiples of a power of two (block boundaries of any precomputed summary)
			mm := int32(20)
			if k > 12 {
				mm = 2 // long ranges: two counters are enough to see a wrong minimum
			}
			c.Queries = append(c.Queries, [3]int32{0, at, mm}, [3]int32{at / 2, at, mm}, [3]int32{at, at + at/2, mm})
			if 2*int(at) < spec.N {
				c.Queries = append(c.Queries, [3]int32{at, 2 * at, mm}, [3]int32{at, 2*at + 1, mm}, [3]int32{at - 1, 2 * at, mm})
			}
		}
		for b := int32(1024); int(b)+3072 < spec.N && b < 40000; b += 1024 {
			c.Queries = append(c.Queries, [3]int32{b, b + 1024, 16}, [3]int32{b, b + 3072, 16})
		}
		for i := 0; i < 40; i++ {
			s := int32(vk.Mix(uint64(i)+uint64(spec.N)) % uint64(spec.N-1000))
			c.Queries = append(c.Queries, [3]int32{s, s + 2 + int32(vk.Mix(uint64(i))%900), 24})
		}
		c.Queries = append(c.Queries, [3]int32{0, int32(spec.N), 2})
		checker.Run(t, c)
	}
	vk.MarkExhaustive("all sorted subsets of size 2..5 of a 14-key pool x all sub-ranges x 8 values of m")
}

// Package c16 decides property C16: sigbits first-difference bits and prefix
// counts match the keys' bit strings.
package c16

import (
	"fmt"
	"sort"
	"testing"

	"github.com/openacid/low/sigbits"
	"pgregory.net/rapid"

	"verif/harness/gen"
	"verif/harness/model"
	"verif/harness/vk"
)

func TestMain(m *testing.M) { vk.Main(m, "C16") }

// BigKeys describes a very large strictly ascending key set compactly: key i is the 4-byte
// big-endian value of i*Stride followed by a tail chosen by i (none, one NUL, or a longer
// suffix), so that keys differ in length and the first differences vary. Expansion is a pure
// function of the spec.
type BigKeys struct {
	N      int `json:"n"`
	Stride int `json:"stride"`
}

func (b BigKeys) expand() []string {
	keys := make([]string, b.N)
	for i := range keys {
		v := uint32(i * b.Stride)
		k := []byte{byte(v >> 24), byte(v >> 16), byte(v >> 8), byte(v)}
		switch i % 5 {
		case 1:
			k = append(k, 0)
		case 3:
			k = append(k, "suffix-"...)
			k = append(k, byte(i))
		}
		keys[i] = string(k)
	}
	return keys
}

type Case struct {
	Big     *BigKeys   `json:"big,omitempty"`
	Tree    *Tree      `json:"tree,omitempty"` // a strictly ascending key set of any size, described compactly (tree_test.go)
	Keys    []vk.Hex   `json:"keys"`
	Sorted  bool       `json:"sorted"`            // strictly ascending: CountPrefixes is in domain
	Queries [][3]int32 `json:"queries,omitempty"` // (s, e, m): further CountPrefixes calls (any m >= 1)
	AllM    int        `json:"allm,omitempty"`    // every m in 1..AllM on the sub-ranges (0,n) and (1,n)
	Lay     vk.U64     `json:"lay,omitempty"`     // where the key bytes live (tree_test.go: layout); 0 = fresh strings / reused list
	Class   string     `json:"class,omitempty"`
}

func allRangesUpTo() int { return vk.Pick(8, 12) }

var checker = &vk.Checker[Case]{
	ID: "C16",
	Rule: "key sets built from a random prefix tree (deep shared prefixes across the 8- and 16-byte chunk boundaries, a key that is a prefix of its successor, NUL suffix families a/a\\0/a\\0\\0, empty key, bytes >= 0x80), sorted and de-duplicated; FirstDiffBits also on unsorted lists and single keys; " +
		"3 of 10 cases: a strictly ascending key set described as a walk (Tree): 2..4096 keys (thorough 2^15), the number log-uniform, every key derived from its predecessor by an extension (prefix of successor, NUL families) or by raising a byte near the end, so that first differences are deep at every index; a common root of 0..8 KiB (thorough 128 KiB), log-uniform; optionally a stretch of keys sharing up to 8 KiB more than their neighbours (first differences thousands of bits apart inside one sub-range); optionally only every k-th key longer than 8 bytes; alphabets: all bytes / {00,ff,a,b} / {a,b}. " +
		"1 case in 1600: 65 537..~165 000 (thorough ~465 000) four-byte keys i*stride (stride 1,2,3,4,5,11) with varying tails, CountPrefixes on the whole set and on a range of more than 65 536 keys with m in 18..33 (counters above 65 535; one first difference shared by more than 65 535 pairs). " +
		"Half of all cases hand the keys over as substrings of ONE larger buffer (foreign non-zero bytes around them): all at the same offset 0..7 from an 8-byte boundary, two different offsets, packed back to back, an offset per key, or a buffer per key; the other half as fresh heap strings / a reused list. " +
		"CountPrefixes(s,e,m) on strictly ascending sets: ALL sub-ranges with e-s>=2 when n<=8 (thorough n<=12) x m in {1,2,3,8,9,17,64, one further m in 1..72 chosen by the case} and, on three sub-ranges per case, m = total bits+5, and (1 case in 8, and the whole pool grid) every m in 1..72 on (0,n) and (1,n); plus sampled (s,e,m) on every set: range length and start log-uniform, m uniform in 1..72 / log-uniform up to twice the key bits / around the longest key's bits / log-uniform up to 2^16 (thorough 2^21). " +
		"Results are looked at again after later calls: the slice of FirstDiffBits at the end of its case; it, up to three verified (first result, counters) answers per case (ranges with (e-s)+m <= 2048) and the SigBits object they came from stay under watch during the next 8 cases - the slices must read as they did when they were returned (their spare capacity is overwritten first, as a caller's append would), and the same (s,e,m) on the kept object must give the same answers after other objects were built and queried. A SigBits may refer to its argument list, so an object built on the reused argument list (half of the cases) is not kept, only the slices it returned. " +
		"Oracle: first differing byte, then first differing bit of those two bytes (compared with a plain bit loop in the grid); m0 = min over adjacent pairs in range; counter i = number of distinct (m0+i)-bit truncations compared as plain bit strings (bits+length), a shorter key counting as itself: by pairwise comparison (<= 64 keys, <= 12 on sampled queries), by a set (65..4096 keys) or by comparing neighbours (longer ranges; equal truncations of ascending keys are contiguous; cross-checked against the other two). For long counter vectors the counters are decided exactly at 0,1,2,m-2,m-1, around every first difference and key end of the range (48 spread over it when longer), at 3..65 and at pseudo-random indices within a cost budget, everywhere at or beyond the longest key (= e-s), and all of them for 1 <= c[i-1] <= c[i] <= e-s. " +
		"Grid: all sorted subsets (size 2..5) of a 14-key pool; three very large key sets (70 001, 2^18+7 and 2^19+9 keys: every adjacent pair, sub-ranges around every power-of-two index, m = 2 on most ranges longer than 8192 keys, m = 24 on the whole set (70 001, 2^18+7) and m = 22 on [2^17, 2^18) resp. [2^18, 2^19)) and 2^17+2 keys 0,1,2,.. with ranges that put exactly 2^15-1, 2^15, 2^15+1, 2^16-1, 2^16, 2^16+1 pairs on one first difference (m = 18..21); key lengths 0..41 and around 48..257 x every position of the first differing byte x both keys at the same offset 0..7 / different offsets inside one buffer; Tree sets of 2^k-1, 2^k, 2^k+1 and two other sizes per octave up to 2^14 keys (100..5000 and 10007 keys under every GOMAXPROCS setting of the procs process); common roots and deep stretches of 2^k-1, 2^k, 2^k+1 and two other lengths per octave up to 64 KiB; m = 2^k-1, 2^k, 2^k+1 and two others per octave up to 2^16. " +
		"Non-trivial: >= 3 keys sharing >= 1 byte of prefix and (a key that is a prefix of its successor, or a common prefix > 8 bytes, or a NUL-suffix pair). Distinct by hash of the case.",
	Check:    check,
	Classify: classify,
}

// firstDiff: the first byte at which the keys differ, then the first bit (most significant first) at
// which those two bytes differ; 8*min(len) when there is no such byte. (firstDiffBitwise is the plain bit
// loop; TestGrid compares the two on every pair of the pool and of a few trees.)
func firstDiff(a, b string) int32 {
	n := min(len(a), len(b))
	for i := 0; i < n; i++ {
		if a[i] != b[i] {
			for k := 8 * i; ; k++ {
				if model.StrBit(a, k) != model.StrBit(b, k) {
					return int32(k)
				}
			}
		}
	}
	return int32(8 * n)
}

func firstDiffBitwise(a, b string) int32 {
	n := 8 * min(len(a), len(b))
	for k := 0; k < n; k++ {
		if model.StrBit(a, k) != model.StrBit(b, k) {
			return int32(k)
		}
	}
	return int32(n)
}

// equalTrunc reports whether the k-bit truncations of a and b are the same
// plain bit string (same length, same bits); a key shorter than k bits is
// truncated to itself.
func equalTrunc(a, b string, k int) bool {
	la, lb := min(k, 8*len(a)), min(k, 8*len(b))
	if la != lb {
		return false
	}
	full := la / 8
	if a[:full] != b[:full] {
		return false
	}
	if r := la % 8; r != 0 {
		m := byte(0xff) << uint(8-r)
		return a[full]&m == b[full]&m
	}
	return true
}

// wantCount: m0 = smallest first difference among adjacent keys in [s,e);
// counter i = number of distinct (m0+i)-bit truncations among keys[s:e].
func wantCount(keys []string, s, e, m int) (int32, []int32) {
	m0 := int32(1<<31 - 1)
	for i := s; i+1 < e; i++ {
		if d := firstDiff(keys[i], keys[i+1]); d < m0 {
			m0 = d
		}
	}
	out := make([]int32, m)
	if e-s > 4096 {
		// very long ranges: neighbours only (distinctAdj; cross-checked against the set below on every
		// range of 65..4096 keys that a case asks for, and against the pairwise count in TestGrid)
		for i := 0; i < m; i++ {
			out[i] = distinctAdj(keys, s, e, int(m0)+i)
		}
		return m0, out
	}
	if e-s > 64 {
		// large ranges: a set of (length, truncated bytes) instead of the quadratic pairwise comparison
		for i := 0; i < m; i++ {
			k := int(m0) + i
			set := make(map[string]struct{}, e-s)
			for _, key := range keys[s:e] {
				l := min(k, 8*len(key))
				b := []byte(key[:(l+7)/8])
				if l%8 != 0 {
					b[len(b)-1] &= 0xff << uint(8-l%8)
				}
				set[string(append(b, byte(l), byte(l>>8), byte(l>>16)))] = struct{}{}
			}
			out[i] = int32(len(set))
			if adj := distinctAdj(keys, s, e, k); adj != out[i] {
				vk.Infra(fmt.Sprintf("C16 oracle: neighbour count %d != set count %d for %d-bit prefixes of keys[%d:%d]", adj, out[i], k, s, e))
			}
		}
		return m0, out
	}
	for i := 0; i < m; i++ {
		k := int(m0) + i
		cnt := 0
		for x := s; x < e; x++ {
			dup := false
			for y := s; y < x && !dup; y++ {
				dup = equalTrunc(keys[x], keys[y], k)
			}
			if !dup {
				cnt++
			}
		}
		out[i] = int32(cnt)
	}
	return m0, out
}

var smallMs = []int{1, 2, 3, 8, 9, 17, 64}

func bigM(keys []string) int {
	total := 0
	for _, k := range keys {
		total = max(total, 8*len(k))
	}
	return total + 5
}

func mValues(keys []string) []int { return append(append([]int(nil), smallMs...), bigM(keys)) }

func checkCount(sb *sigbits.SigBits, keys []string, s, e, m int) *vk.Failure {
	wm, wc := wantCount(keys, s, e, m)
	return checkCountAgainst(sb, keys, s, e, m, wm, wc)
}

func checkCountAgainst(sb *sigbits.SigBits, keys []string, s, e, m int, wm int32, wc []int32) *vk.Failure {
	wc = wc[:m]
	showKeys := func() string { // the whole list only when it is short (a very large set would make a message of megabytes)
		if len(keys) <= 64 {
			return fmt.Sprintf("%x", keys)
		}
		return fmt.Sprintf("(%d keys; keys[s..s+3]=%.80x ... keys[e-2..e]=%.80x)", len(keys), keys[s:min(s+3, e)], keys[e-2:e])
	}
	showCounters := func(v []int32) string {
		if len(v) <= 80 {
			return fmt.Sprint(v)
		}
		return fmt.Sprintf("%v ... (%d counters)", v[:80], len(v))
	}
	var gm int32
	var gc []int32
	if f := vk.Try(fmt.Sprintf("CountPrefixes(%d,%d,%d) on %d keys", s, e, m, len(keys)), func() { gm, gc = sb.CountPrefixes(int32(s), int32(e), int32(m)) }); f != nil {
		return f
	}
	if gm != wm {
		return vk.Failf("count-min", "CountPrefixes(s=%d,e=%d,m=%d) on keys %s: first result %d, want %d", s, e, m, showKeys(), gm, wm)
	}
	if len(gc) != len(wc) {
		return vk.Failf("count-len", "CountPrefixes(s=%d,e=%d,m=%d) returned %d counters, want %d", s, e, m, len(gc), len(wc))
	}
	for i := range gc {
		if gc[i] != wc[i] {
			return vk.Failf("count", "CountPrefixes(s=%d,e=%d,m=%d) on keys %s: counter %d (prefix length %d bits) = %d, want %d; all %s want %s", s, e, m, showKeys(), i, int(wm)+i, gc[i], wc[i], showCounters(gc), showCounters(wc))
		}
	}
	noteResult(s, e, m, gm, gc)
	return nil
}

func (c Case) keyStrings() []string {
	if c.Big != nil {
		return c.Big.expand()
	}
	if c.Tree != nil {
		return c.Tree.expand()
	}
	return vk.Strings(c.Keys)
}

var scratch vk.Scratch

func check(c Case) *vk.Failure {
	orig := c.oracleKeys()
	if len(orig) == 0 {
		return nil // FirstDiffBits is stated for non-empty lists (no generator produces this; a hand-made file could)
	}
	sorted := c.Sorted
	if sorted && !strictlyAscending(orig) {
		if c.Tree != nil || c.Big != nil {
			vk.Infra(fmt.Sprintf("C16 harness: a described key set is not strictly ascending: %+v %+v", c.Tree, c.Big))
			return nil
		}
		sorted = false // a hand-made file: only what holds for every list is decided
	}
	sum := vk.SumStrings(orig)
	reused := c.Big == nil && scratch.Reuse(sum)
	var keys []string
	switch {
	case c.Lay != 0:
		// the key bytes live inside one larger buffer (substrings at chosen offsets from an 8-byte boundary)
		keys = layout(orig, uint64(c.Lay))
		if reused {
			list := scratch.Strings(orig)
			copy(list, keys)
			keys = list
		}
	case reused:
		keys = scratch.Strings(orig) // every other case: the same backing array as earlier calls, other keys
	default:
		keys = c.keyStrings()
	}
	var ds []int32
	if f := vk.TryF(func() string {
		return fmt.Sprintf("FirstDiffBits(%d keys: %.200x ...)", len(keys), keys[:min(len(keys), 24)])
	}, func() { ds = sigbits.FirstDiffBits(keys) }); f != nil {
		return f
	}
	if len(ds) != len(keys)-1 {
		return vk.Failf("firstdiffbits-len", "FirstDiffBits of %d keys has %d entries", len(keys), len(ds))
	}
	wd := make([]int32, len(orig)-1)
	for i := range wd {
		wd[i] = firstDiff(orig[i], orig[i+1])
	}
	for i := range ds {
		if ds[i] != wd[i] {
			return vk.Failf("firstdiffbits", "FirstDiffBits(...)[%d] of %d keys for keys %s / %s = %d, want %d (%s; key data at addresses = %d and %d mod 8)", i, len(keys), showKey(orig[i]), showKey(orig[i+1]), ds[i], wd[i], layLabel(uint64(c.Lay)), addrMod8(keys[i]), addrMod8(keys[i+1]))
		}
	}
	vk.ScribbleI32(ds) // the spare capacity of a result is the caller's (append)
	if !sorted || len(keys) < 2 {
		return watch(ds, wd, nil, keys, reused, nil)
	}
	ck := &caseKeep{salt: sum}
	curKeep = ck
	defer func() { curKeep = nil }()
	var sb *sigbits.SigBits
	if f := vk.Try("sigbits.New", func() { sb = sigbits.New(keys) }); f != nil {
		return f
	}
	if c.Tree == nil && c.Big == nil && len(keys) <= allRangesUpTo() {
		n := len(keys)
		for s := 0; s < n; s++ {
			for e := s + 2; e <= n; e++ {
				// a further m per sub-range, 1..72 as a function of the case: no m below 73 is left out over a run
				ms := append(append(make([]int, 0, 16), smallMs...), 1+int(vk.Mix(sum^uint64(s)<<8^uint64(e)<<20)%72))
				full := (s == 0 && e == n) || (s == 1 && e == n)
				// the long counter vector (beyond every key's length) on three sub-ranges per case
				if full || (s == n/3 && e == s+2+(n-s-2)/2) {
					ms = append(ms, bigM(orig[s:e]))
				}
				if full {
					for m := 1; m <= min(c.AllM, 4096); m++ {
						ms = append(ms, m)
					}
				}
				maxM := 0
				for _, m := range ms {
					maxM = max(maxM, m)
				}
				wm, wc := wantCount(orig, s, e, maxM)
				for _, m := range ms {
					if f := checkCountAgainst(sb, orig, s, e, m, wm, wc); f != nil {
						return f
					}
				}
			}
		}
	}
	for qi, q := range c.Queries {
		s, e, m := int(q[0]), int(q[1]), int(q[2])
		if s < 0 || e > len(keys) || e-s < 2 || m < 1 {
			continue
		}
		var f *vk.Failure
		if c.Big != nil || (c.Tree == nil && m <= 80 && e-s <= 64) {
			f = checkCount(sb, orig, s, e, m)
		} else {
			f = checkCountSampled(sb, orig, wd, s, e, m, sum+uint64(qi)*0x9e3779b97f4a7c15)
		}
		if f != nil {
			return f
		}
	}
	for i := range keys {
		if keys[i] != orig[i] {
			return vk.Failf("mutates", "key %d changed", i)
		}
	}
	if reused {
		if msg := scratch.Check(); msg != "" {
			return vk.Failf("argument-spare-capacity-written", "%s", msg)
		}
	}
	// the FirstDiffBits result once more, after everything that was called since
	if at := sameI32(ds, wd); at >= 0 {
		return vk.Failf("firstdiffbits-changed-after-later-call", "FirstDiffBits(%d keys) returned %d at position %d; after sigbits.New and CountPrefixes calls on the same keys the returned slice reads %d there", len(keys), wd[at], at, ds[at])
	}
	return watch(ds, wd, sb, keys, reused, ck)
}

func showKey(k string) string {
	if len(k) <= 96 {
		return fmt.Sprintf("%x", k)
	}
	return fmt.Sprintf("%x..(%d bytes)..%x", k[:24], len(k), k[len(k)-48:])
}

// oracleKeys is keyStrings for the oracle's and the classifier's (read-only) use: the expansion of the
// last Tree is kept, so that a case is not expanded three times. The library never sees these strings.
var treeMemo struct {
	spec Tree
	keys []string
}

func (c Case) oracleKeys() []string {
	if c.Tree == nil {
		return c.keyStrings()
	}
	if treeMemo.keys == nil || treeMemo.spec != *c.Tree {
		treeMemo.spec, treeMemo.keys = *c.Tree, c.Tree.expand()
	}
	return treeMemo.keys
}

func octave(what string, v int) string {
	if v < 8 {
		return fmt.Sprintf("%s:%d", what, v)
	}
	b := bitLen(v) - 1
	return fmt.Sprintf("%s:2^%d..2^%d-1", what, b, b+1)
}

func classify(c Case) (bool, []string) {
	labels := []string{layLabel(uint64(c.Lay))}
	mSeen := map[string]bool{}
	for _, q := range c.Queries {
		l := "m:1..3"
		switch m := q[2]; {
		case m >= 4096:
			l = "m:>=4096"
		case m > 72:
			l = "m:73..4095"
		case m > 3:
			l = "m:4..72"
		}
		if !mSeen[l] {
			mSeen[l] = true
			labels = append(labels, l)
		}
	}
	if c.AllM > 0 {
		labels = append(labels, "every-m-up-to-allm")
	}
	if c.Big != nil {
		for _, q := range c.Queries {
			if q[1]-q[0] > 65536 && q[2] >= 18 {
				labels = append(labels, "range>65536-keys-with-m>=18(counters>65535)")
				break
			}
		}
		return true, append(labels, "class:very-large-key-set")
	}
	keys := c.oracleKeys()
	if c.Class != "" {
		labels = append(labels, "class:"+c.Class)
	}
	if c.Sorted {
		labels = append(labels, "sorted")
	} else {
		labels = append(labels, "unsorted")
	}
	prefixOfNext, deep, nul, share, deepLate, deep512, short, long := false, false, false, false, false, false, false, false
	for i := 0; i+1 < len(keys); i++ {
		a, b := keys[i], keys[i+1]
		d := int(firstDiff(a, b))
		if d >= 8 {
			share = true
		}
		if d > 64 {
			deep = true
		}
		if d >= 32 && i >= 39 {
			deepLate = true
		}
		if d >= 4096 {
			deep512 = true
		}
		if len(a) < len(b) && b[:len(a)] == a {
			prefixOfNext = true
			z := true
			for _, ch := range []byte(b[len(a):]) {
				z = z && ch == 0
			}
			nul = nul || z
		}
	}
	for _, k := range keys {
		short = short || len(k) <= 8
		long = long || len(k) > 8
	}
	for _, k := range keys {
		if k == "" {
			labels = append(labels, "has-empty-key")
			break
		}
	}
	if prefixOfNext {
		labels = append(labels, "key-is-prefix-of-successor")
	}
	if deep {
		labels = append(labels, "common-prefix>8bytes")
	}
	if deep512 {
		labels = append(labels, "common-prefix>=512bytes")
	}
	if deepLate {
		labels = append(labels, "first-difference>=32bits-at-pair-index>=39")
	}
	if short && long {
		labels = append(labels, "keys<=8bytes-and-keys>8bytes-mixed")
	}
	if nul {
		labels = append(labels, "nul-suffix-pair")
	}
	if c.Tree != nil {
		labels = append(labels, octave("tree-keys", len(keys)), octave("tree-root-bytes", c.Tree.Root))
	} else if len(keys) > allRangesUpTo() {
		labels = append(labels, "large-set(sampled-ranges)")
	}
	return len(keys) >= 3 && share && (prefixOfNext || deep || nul), labels
}

func genCase(t *rapid.T) Case {
	var c Case
	if gen.Chance(t, 1, 40, "more-than-65536-keys") && gen.Chance(t, 1, 40, "more-than-65536-keys.2") { // two draws: rapid repeats small raw values often, one draw of 1 in 1600 is far off
		return genManyKeys(t)
	}
	if gen.Chance(t, 3, 10, "tree") {
		c = genTree(t)
	} else {
		c = genPrefixTree(t)
	}
	if gen.Chance(t, 1, 2, "laid-out") {
		c.Lay = vk.U64(genLay(t))
	}
	return c
}

// genManyKeys: 65 537 .. ~165 000 (thorough ~465 000) four-byte keys i*stride (BigKeys), queried on ranges of
// more than 65 536 keys with counter vectors that hold every first difference of the range: counters above
// 65 535, and (stride 1, 2, 4 on > 2^17 keys) one first difference shared by more than 65 535 pairs.
func genManyKeys(t *rapid.T) Case {
	spec := BigKeys{N: 1<<16 + 1 + gen.Uniform(t, vk.Pick(100000, 400000), "many.n"), Stride: []int{1, 1, 2, 3, 4, 5, 11}[gen.Uniform(t, 7, "many.stride")]}
	c := Case{Big: &spec, Sorted: true, Class: "very-large-key-set"}
	m := int32(18 + gen.Uniform(t, 16, "many.m"))
	c.Queries = append(c.Queries, [3]int32{0, int32(spec.N), m})
	l := 1<<16 + 1 + gen.Uniform(t, spec.N-1<<16, "many.len")
	s := gen.Uniform(t, spec.N-l+1, "many.s")
	c.Queries = append(c.Queries, [3]int32{int32(s), int32(s + l), int32(18 + gen.Uniform(t, 16, "many.m2"))})
	s2, e2 := genRange(t, spec.N, "many.q")
	if e2-s2 <= 4096 {
		c.Queries = append(c.Queries, [3]int32{int32(s2), int32(e2), int32(1 + gen.Uniform(t, 72, "many.m3"))})
	}
	return c
}

func genPrefixTree(t *rapid.T) Case {
	maxKeys := vk.Pick(40, 300)
	if gen.Chance(t, 1, 6, "unsorted") {
		// FirstDiffBits does not require order: permuted / repeated keys
		pool := gen.Keys(t, 12, "pool")
		if len(pool) == 0 {
			pool = []string{"a"}
		}
		n := 1 + gen.Uniform(t, 10, "n")
		keys := make([]string, n)
		for i := range keys {
			keys[i] = pool[gen.Uniform(t, len(pool), "pick")]
		}
		return Case{Keys: vk.HexStrings(keys), Sorted: false, Class: "unsorted"}
	}
	keys := gen.Keys(t, maxKeys, "keys")
	if gen.Chance(t, 3, 4, "small") && len(keys) > allRangesUpTo() {
		// prefer small sets (every sub-range is enumerated); keep a window
		st := gen.Uniform(t, len(keys)-allRangesUpTo()+1, "start")
		keys = keys[st : st+allRangesUpTo()]
	}
	if len(keys) == 0 {
		keys = []string{""}
	}
	c := Case{Keys: vk.HexStrings(keys), Sorted: true, Class: "prefix-tree"}
	if len(keys) > allRangesUpTo() {
		mv := mValues(keys)
		for i := 0; i < 24; i++ {
			a, b := gen.Uniform(t, len(keys)+1, "a"), gen.Uniform(t, len(keys)+1, "b")
			s, e := min(a, b), max(a, b)
			if e-s < 2 {
				continue
			}
			c.Queries = append(c.Queries, [3]int32{int32(s), int32(e), int32(mv[gen.Uniform(t, len(mv), "m")])})
		}
		c.Queries = append(c.Queries, [3]int32{0, int32(len(keys)), 9}, [3]int32{1, int32(len(keys)), 64})
	}
	if len(keys) >= 2 {
		// any m >= 1 on any sub-range (the enumerated sub-ranges use a fixed list of m)
		for i := 0; i < 3; i++ {
			s, e := genRange(t, len(keys), "xq")
			c.Queries = append(c.Queries, [3]int32{int32(s), int32(e), int32(genM(t, bigM(keys[s:e]), "xq.m"))})
		}
		if len(keys) <= allRangesUpTo() && gen.Chance(t, 1, 8, "allm") {
			c.AllM = 72
		}
	}
	return c
}

func TestRegress(t *testing.T) { checker.Regress(t) }

func TestProp(t *testing.T) { checker.Prop(t, genCase) }

// FuzzProp: the fuzzer's bytes are split on 0xfe into keys, sorted and de-duplicated in the target.
func FuzzProp(f *testing.F) {
	vk.SetPhase("fuzz")
	f.Add([]byte("a\xfea\x00\xfea\x00\x00\xfeab"))
	f.Add([]byte("abcdefgh\xfeabcdefghi\xfeabcdefghijklmnopq\xfeabcdefghijklmnopr"))
	f.Add([]byte("\xfe\x00\xfe\x80\xfe\xff"))
	f.Fuzz(func(t *testing.T, data []byte) {
		if len(data) > 600 {
			return
		}
		set := map[string]struct{}{}
		cur := []byte{}
		for _, b := range data {
			if b == 0xfe {
				set[string(cur)] = struct{}{}
				cur = cur[:0]
				continue
			}
			cur = append(cur, b)
		}
		set[string(cur)] = struct{}{}
		keys := make([]string, 0, len(set))
		for k := range set {
			keys = append(keys, k)
		}
		sort.Strings(keys)
		if len(keys) > allRangesUpTo() {
			keys = keys[:allRangesUpTo()]
		}
		c := Case{Keys: vk.HexStrings(keys), Sorted: true, Class: "fuzz"}
		if h := vk.Hash64(data); h&1 == 1 { // half of the inputs: the keys are substrings of one buffer
			offB := int(h >> 3 & 7)
			if h>>6&1 == 0 {
				offB = int(h >> 7 & 7)
			}
			c.Lay = vk.U64(mkLay(int(h>>1&3), int(h>>3&7), offB, h>>10&0xffff))
		}
		checker.Run(t, c)
	})
}

var Pool = []string{"", "a", "a\x00", "a\x00\x00", "ab", "ab\x00", "abcdefgh", "abcdefgh\x00", "abcdefghi", "abcdefgi", "abcdefghijklmnopq", "abcdefghijklmnopr", "b", "\x80", "\xff"}

func TestGrid(t *testing.T) {
	vk.SetPhase("grid")
	pool := append([]string(nil), Pool[:14]...)
	sort.Strings(pool)
	n := len(pool)
	for sub := 0; sub < 1<<uint(n); sub++ {
		var keys []string
		for i := 0; i < n; i++ {
			if sub>>uint(i)&1 == 1 {
				keys = append(keys, pool[i])
			}
		}
		if len(keys) < 2 || len(keys) > 5 {
			continue
		}
		c := Case{Keys: vk.HexStrings(keys), Sorted: true, Class: "grid", AllM: 72}
		if sub%3 != 0 { // two thirds: the keys are substrings of one buffer (every mode, every offset over the grid)
			off := sub / 3 % 8
			c.Lay = vk.U64(mkLay(sub/24%4, off, off, uint64(sub)))
		}
		checker.Run(t, c)
	}
	gridOracles(t)
	gridAlignment(t)
	gridTreeSizes(t)
	gridRootLengths(t)
	gridCounterLengths(t)
	// very large key sets (size thresholds of any batched / parallel implementation): every adjacent
	// pair is compared; CountPrefixes on sub-ranges around every power-of-two index and on keyed ones
	for _, spec := range []BigKeys{{N: 1<<18 + 7, Stride: 3}, {N: 1<<19 + 9, Stride: 1}, {N: 70001, Stride: 11}} {
		spec := spec
		c := Case{Big: &spec, Sorted: true, Class: "very-large-key-set"}
		for k := uint(8); 1<<k < spec.N; k++ {
			at := int32(1 << k)
			c.Queries = append(c.Queries, [3]int32{at - 3, at + 4, 12}, [3]int32{at - 1, at + 1, 3}, [3]int32{at - 300, at + 200, 40})
			// ranges that start and end exactly on multiples of a power of two (block boundaries of any precomputed summary)
			mm := int32(20)
			if k > 12 {
				mm = 2 // long ranges: two counters are enough to see a wrong minimum
			}
			c.Queries = append(c.Queries, [3]int32{0, at, mm}, [3]int32{at / 2, at, mm}, [3]int32{at, at + at/2, mm})
			if 2*int(at) < spec.N {
				c.Queries = append(c.Queries, [3]int32{at, 2 * at, mm}, [3]int32{at, 2*at + 1, mm}, [3]int32{at - 1, 2 * at, mm})
				if k >= 17 && (spec.Stride != 1 || k == 18) {
					// every first difference of a range of >= 2^17 keys inside the counter vector: one first
					// difference is shared by more than 65 535 pairs, counters exceed 65 535
					c.Queries = append(c.Queries, [3]int32{at, 2 * at, 22})
				}
			}
		}
		if spec.N > 65536 && spec.N < 1<<19 {
			c.Queries = append(c.Queries, [3]int32{0, int32(spec.N), 24})
		}
		for b := int32(1024); int(b)+3072 < spec.N && b < 40000; b += 1024 {
			c.Queries = append(c.Queries, [3]int32{b, b + 1024, 16}, [3]int32{b, b + 3072, 16})
		}
		for i := 0; i < 40; i++ {
			s := int32(vk.Mix(uint64(i)+uint64(spec.N)) % uint64(spec.N-1000))
			c.Queries = append(c.Queries, [3]int32{s, s + 2 + int32(vk.Mix(uint64(i))%900), 24})
		}
		c.Queries = append(c.Queries, [3]int32{0, int32(spec.N), 2})
		checker.Run(t, c)
	}
	gridBucketBoundaries(t)
	vk.MarkExhaustive("all sorted subsets of size 2..5 of a 14-key pool x all sub-ranges x 9 values of m (x every m in 1..72 on the sub-ranges (0,n) and (1,n))")
}

// gridOracles: the two first-difference oracles agree, and the linear-time prefix count agrees with the
// pairwise one (a disagreement is a harness problem, not a finding).
func gridOracles(t *testing.T) {
	sets := [][]string{append([]string(nil), Pool...)}
	sort.Strings(sets[0])
	for i := 0; i < 6; i++ {
		sets = append(sets, Tree{N: 60, Seed: vk.U64(900 + i), Root: []int{0, 3, 9, 17, 70, 0}[i], Tail: 3 + 4*i, Alpha: i % 3, LongEvery: []int{0, 0, 4, 0, 0, 3}[i]}.expand())
	}
	for _, keys := range sets {
		if !strictlyAscending(keys) {
			vk.Infra("C16 harness: a generated key set is not strictly ascending")
			t.Fatalf("harness: key set not strictly ascending: %x", keys)
		}
		for _, a := range keys {
			for _, b := range keys {
				if firstDiff(a, b) != firstDiffBitwise(a, b) {
					vk.Infra("C16 harness: the two first-difference oracles disagree")
					t.Fatalf("harness: oracles disagree on %x / %x", a, b)
				}
			}
		}
		for s := 0; s < len(keys); s += 7 {
			for e := s + 2; e <= len(keys); e += 5 {
				for k := 0; k < 8*30; k += 1 + k/40 {
					if distinctAdj(keys, s, e, k) != distinctDef(keys, s, e, k) {
						vk.Infra("C16 harness: the two prefix-count oracles disagree")
						t.Fatalf("harness: prefix counts disagree on %x [%d,%d) k=%d", keys, s, e, k)
					}
				}
			}
		}
	}
}

// gridAlignment: every length 0..41 (and around 48, 56, 64, 72, 128, 256) x every position of the first
// differing byte (long keys: the first 18 and the last 18) x how the two keys of a pair sit relative to
// an 8-byte boundary: both at the same offset 0..7 and (even lengths, long keys) one aligned and one not
// or two different odd offsets. The keys
// of one case are substrings of one buffer; even entries are the base key, odd entries a variant (one
// byte changed; the same with a tail appended; a proper prefix). FirstDiffBits only (the list is not sorted).
func gridAlignment(t *testing.T) {
	lengths := []int{}
	for l := 0; l <= 41; l++ {
		lengths = append(lengths, l)
	}
	lengths = append(lengths, 47, 48, 49, 55, 56, 57, 63, 64, 65, 71, 72, 73, 127, 128, 129, 255, 256, 257)
	var offs [][2]int
	for x := 0; x < 8; x++ {
		offs = append(offs, [2]int{x, x})
	}
	mixed := [][2]int{{0, 1}, {1, 0}, {0, 4}, {4, 0}, {0, 7}, {7, 0}, {3, 5}, {5, 3}, {2, 6}}
	for _, l := range lengths {
		base := make([]byte, l)
		for i := range base {
			base[i] = byte(vk.Mix(uint64(l)<<16+uint64(i))) | 1
		}
		var keys []string
		for p := 0; p < l; p++ {
			if l > 41 && p >= 18 && p < l-18 {
				continue
			}
			v := append([]byte(nil), base...)
			v[p] ^= 1 << uint((p+l)%8)
			keys = append(keys, string(base), string(v), string(base), string(v)+"\x00tail")
		}
		for k := 1; k <= min(l, 9); k++ {
			keys = append(keys, string(base), string(base[:l-k]))
		}
		keys = append(keys, string(base), string(base), string(base)+"\x00", string(base))
		use := offs
		if l%2 == 0 || l > 41 {
			use = append(append([][2]int(nil), offs...), mixed...)
		}
		for _, o := range use {
			checker.Run(t, Case{Keys: vk.HexStrings(keys), Sorted: false, Class: "alignment-grid", Lay: vk.U64(mkLay(layTwoOffsets, o[0], o[1], uint64(l)))})
		}
	}
}

// gridBucketBoundaries: 2^17+2 four-byte keys 0,1,2,...: in keys[0:e] the pairs (2j, 2j+1) all have their
// first difference at bit 31, the others above it. Ranges that put exactly 2^15-1, 2^15, 2^15+1 and 2^16-1,
// 2^16, 2^16+1 pairs on that one first difference (and 2^16-1, 2^16, 2^16+2 .. keys into the last counters),
// with a counter vector that reaches past bit 31; the same numbers on ranges that do not start at key 0.
func gridBucketBoundaries(t *testing.T) {
	spec := BigKeys{N: 1<<17 + 2, Stride: 1}
	c := Case{Big: &spec, Sorted: true, Class: "very-large-key-set"}
	for _, e := range []int32{1<<16 - 1, 1 << 16, 1<<16 + 2, 1<<17 - 1, 1 << 17, 1<<17 + 2} {
		c.Queries = append(c.Queries, [3]int32{0, e, 18})
	}
	c.Queries = append(c.Queries, [3]int32{2, 1<<16 + 4, 19}, [3]int32{1, 1<<17 + 2, 21})
	checker.Run(t, c)
}

func rangeQueries(n, i int, ms []int) [][3]int32 {
	var out [][3]int32
	add := func(s, e int) {
		if s >= 0 && e <= n && e-s >= 2 {
			out = append(out, [3]int32{int32(s), int32(e), int32(ms[(i+len(out))%len(ms)])})
		}
	}
	add(0, n)
	add(1, n)
	add(n-2, n)
	add(n-3, n)
	add(n/2, n)
	add(n-min(n, 41), n)
	add(n/3, n/3+2+(n-n/3-2)/2)
	for j := uint64(0); j < 3; j++ {
		s := int(vk.Mix(uint64(n)*31+j) % uint64(n-1))
		add(s, s+2+int(vk.Mix(uint64(n)*37+j)%uint64(n-s-1)))
	}
	return out
}

// gridTreeSizes: key sets of 2^k-1, 2^k, 2^k+1 keys and two other sizes in every octave up to 2^14
// (thorough 2^17), with deep first differences up to the last pair; sub-ranges at the end, the start, the
// middle. In a process that varies GOMAXPROCS the sets of 100..5000 keys (and one of 10007) meet every setting.
func gridTreeSizes(t *testing.T) {
	sizes := append(sizesSweep(1, vk.Pick(uint(14), uint(17)), 1), 10007)
	for i, n := range sizes {
		if n < 2 {
			continue
		}
		spec := Tree{N: n, Seed: vk.U64(vk.Mix(uint64(n)) >> 8), Root: []int{0, 3, 11, 20}[i%4], Tail: 6 + i%9, Alpha: i % 3}
		if i%5 == 4 {
			spec.LongEvery, spec.Tail = 4, 5
		}
		c := Case{Tree: &spec, Sorted: true, Class: "tree-size-sweep"}
		c.Queries = rangeQueries(n, i, []int{1 + i%72, 9, 64, 8*(spec.Root+spec.Tail+24) + 5, 200, 3, 17})
		if i%4 != 3 {
			c.Lay = vk.U64(mkLay(i%4, i*3%8, i*3%8, uint64(i)))
		}
		if (n >= 100 && n <= 5000) || n == 10007 {
			vk.ProcsSweep(func() { checker.Run(t, c) })
		} else {
			checker.Run(t, c)
		}
	}
}

// gridRootLengths: a prefix of 2^k-1, 2^k, 2^k+1 bytes (and two other lengths per octave) up to 2^16 bytes
// (thorough 2^20) shared by 6 keys - and by 50 keys up to 4 KiB - whose first differences lie right behind it.
func gridRootLengths(t *testing.T) {
	for i, r := range sizesSweep(3, vk.Pick(uint(16), uint(20)), 2) {
		for _, n := range []int{6, 50} {
			if n == 50 && r > 4097 {
				continue
			}
			spec := Tree{N: n, Seed: vk.U64(vk.Mix(uint64(r)+uint64(n)) >> 8), Root: r, Tail: 1 + i%5, Alpha: i % 3}
			c := Case{Tree: &spec, Sorted: true, Class: "root-length-sweep"}
			ms := []int{1 + i%72, 64, 300, 8*(spec.Tail+24) + 3, 2}
			for s := 0; s < n; s += 1 + n/8 {
				for e := s + 2; e <= n; e += 1 + n/8 {
					c.Queries = append(c.Queries, [3]int32{int32(s), int32(e), int32(ms[(s+e+i)%len(ms)])})
				}
			}
			c.Lay = vk.U64(mkLay((i+1)%4, i%8, i%8, uint64(i)))
			if i%5 == 0 {
				c.Lay = 0
			}
			checker.Run(t, c)
		}
		// the same lengths as the distance between two first differences of one sub-range: 12 keys, the
		// 5th .. 9th share r more bytes than the others; counter vectors that reach beyond that distance
		spec := Tree{N: 12, Seed: vk.U64(vk.Mix(uint64(r)+99) >> 8), Root: i % 4, Tail: 3, Deep: r, DeepAt: 4, DeepRun: 4}
		c := Case{Tree: &spec, Sorted: true, Class: "deep-stretch-sweep"}
		for j, q := range [][2]int32{{0, 12}, {3, 9}, {2, 7}, {4, 8}, {5, 9}, {3, 12}} {
			c.Queries = append(c.Queries, [3]int32{q[0], q[1], int32([]int{8*r + 120, 8*r + 40, 64, 8*r + 8*30}[(i+j)%4])})
		}
		if i%3 != 0 {
			c.Lay = vk.U64(mkLay(i%4, (i+3)%8, (i+3)%8, uint64(i)))
		}
		checker.Run(t, c)
	}
}

// gridCounterLengths: m = 2^k-1, 2^k, 2^k+1 and two other values per octave up to 2^16 (thorough 2^21) on
// three key sets (short keys; 40 keys behind a 9-byte prefix; 5 keys behind a 600-byte prefix).
func gridCounterLengths(t *testing.T) {
	ms := sizesSweep(0, vk.Pick(uint(16), uint(21)), 3)
	mk := func(c Case, n int) Case {
		for i, m := range ms {
			if m < 1 {
				continue
			}
			c.Queries = append(c.Queries, [3]int32{0, int32(n), int32(m)})
			if s := 1 + i%(n-2); n > 3 {
				c.Queries = append(c.Queries, [3]int32{int32(s), int32(s + 2 + i%(n-s-1)), int32(m)})
			}
		}
		return c
	}
	short := []string{"a", "a\x00", "ab", "abcdefgh", "abcdefghi", "b"}
	checker.Run(t, mk(Case{Keys: vk.HexStrings(short), Sorted: true, Class: "counter-length-sweep"}, len(short)))
	checker.Run(t, mk(Case{Tree: &Tree{N: 40, Seed: 77, Root: 9, Tail: 7}, Sorted: true, Class: "counter-length-sweep", Lay: vk.U64(mkLay(layTwoOffsets, 3, 3, 1))}, 40))
	checker.Run(t, mk(Case{Tree: &Tree{N: 5, Seed: 78, Root: 600, Tail: 3}, Sorted: true, Class: "counter-length-sweep"}, 5))
}

package model

import "testing"

// The two tree oracles (arithmetical walk down the path vs literal recursion)
// must agree on every node of every mask of height <= 10; Succ must follow Walk.
func TestTreeOraclesAgree(t *testing.T) {
	for mask := int32(1); mask < 1<<11; mask++ {
		tr := NewTree(mask)
		total := int64(0)
		first := true
		var pp uint64
		var pl int
		tr.Walk(func(prefix uint64, l int, stored bool, index int64) {
			idx, has := tr.Index(prefix, l)
			if idx != index || has != stored {
				t.Fatalf("mask %#x node (%b,%d): Index=(%d,%v) Walk=(%d,%v)", mask, prefix, l, idx, has, index, stored)
			}
			if !first {
				sp, sl, ok := Succ(pp, pl, tr.H)
				if !ok || sp != prefix || sl != l {
					t.Fatalf("mask %#x: Succ(%b,%d)=(%b,%d,%v) but Walk visits (%b,%d)", mask, pp, pl, sp, sl, ok, prefix, l)
				}
				if !PreorderLess(pp, pl, prefix, l) || PreorderLess(prefix, l, pp, pl) {
					t.Fatalf("PreorderLess disagrees with Walk")
				}
			}
			first = false
			pp, pl = prefix, l
			if stored {
				total++
			}
		})
		if _, _, ok := Succ(pp, pl, tr.H); ok {
			t.Fatalf("Succ continues after the last node")
		}
		if total != int64(mask) || tr.Size[0] != int64(mask) {
			t.Fatalf("mask %#x: %d stored nodes, Size[0]=%d", mask, total, tr.Size[0])
		}
	}
}

func TestPathWord(t *testing.T) {
	// examples from the bmtree package doc / tests: "01" in a height-2 tree
	if got := PathWord(1, 2, 2); got != 0x0000000100000003 {
		t.Fatalf("PathWord(01,2,2)=%#x", got)
	}
	if got := PathWord(1, 1, 3); got != 0x0000000400000004 {
		t.Fatalf("PathWord(1,1,3)=%#x", got)
	}
	if got := PathWord(0, 0, 5); got != 0 {
		t.Fatalf("root=%#x", got)
	}
}

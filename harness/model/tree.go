package model

// Tree is the reference model of a bmtree level mask, written from the
// package documentation: the nodes of a binary tree of height H are laid out
// in pre-order (node, left subtree, right subtree) and only the nodes whose
// depth d has bit d set in the mask are stored (get an index).
type Tree struct {
	H      int       // height = index of the top bit of the mask
	Stored [32]bool  // Stored[d]: depth d is stored
	Size   [34]int64 // Size[d]: number of stored nodes in a subtree rooted at depth d (Size[H+1] = 0)
}

// NewTree builds the model for a mask in [1, 2^31).
func NewTree(mask int32) Tree {
	var t Tree
	t.H = -1
	for d := 0; d < 31; d++ {
		if mask>>uint(d)&1 == 1 {
			t.Stored[d] = true
			t.H = d
		}
	}
	for d := t.H; d >= 0; d-- {
		s := int64(0)
		if t.Stored[d] {
			s = 1
		}
		t.Size[d] = s + 2*t.Size[d+1]
	}
	return t
}

// Index returns the number of stored nodes that precede, in pre-order, the
// node reached by the l steps in prefix (step k = bit l-1-k of prefix, 1 = right),
// and whether the node's own level is stored.
func (t Tree) Index(prefix uint64, l int) (int64, bool) {
	idx := int64(0)
	for k := 0; k < l; k++ {
		// the ancestor at depth k precedes the node
		if t.Stored[k] {
			idx++
		}
		// so does its whole left subtree when the path turns right
		if prefix>>uint(l-1-k)&1 == 1 {
			idx += t.Size[k+1]
		}
	}
	return idx, t.Stored[l]
}

// PathWord encodes (prefix, length l, height h) the way the package doc
// describes a path: search bits left-aligned in h bits in the upper half, a
// run of l ones left-aligned in h bits in the lower half.
func PathWord(prefix uint64, l, h int) uint64 {
	ones := uint64(0)
	for i := 0; i < l; i++ {
		ones = ones<<1 | 1
	}
	return prefix<<uint(h-l)<<32 | ones<<uint(h-l)
}

// Succ returns the node visited right after (prefix,l) by a pre-order walk of
// the complete tree of height h, and false after the last node.
func Succ(prefix uint64, l, h int) (uint64, int, bool) {
	if l < h {
		return prefix << 1, l + 1, true // left child
	}
	for l > 0 && prefix&1 == 1 { // climb while we are a right child
		prefix >>= 1
		l--
	}
	if l == 0 {
		return 0, 0, false
	}
	return prefix | 1, l, true // right sibling
}

// Walk visits every node of the complete tree of height t.H in pre-order by
// actual recursion; index is the count of stored nodes visited before the node
// (the definition of the pre-order rank; shares nothing with Index).
func (t Tree) Walk(visit func(prefix uint64, l int, stored bool, index int64)) {
	counter := int64(0)
	var rec func(prefix uint64, l int)
	rec = func(prefix uint64, l int) {
		visit(prefix, l, t.Stored[l], counter)
		if t.Stored[l] {
			counter++
		}
		if l < t.H {
			rec(prefix<<1, l+1)
			rec(prefix<<1|1, l+1)
		}
	}
	rec(0, 0)
}

// PreorderLess reports whether node a=(pa,la) is visited strictly before node
// b=(pb,lb) in pre-order: an ancestor before its descendants, otherwise the
// side taken at the first differing step decides.
func PreorderLess(pa uint64, la int, pb uint64, lb int) bool {
	for k := 0; k < la && k < lb; k++ {
		x := pa >> uint(la-1-k) & 1
		y := pb >> uint(lb-1-k) & 1
		if x != y {
			return x < y
		}
	}
	return la < lb
}

// Package model holds the reference oracles. They are written from the
// property statements and the package documentation, bit by bit, and share no
// code (no tables, no popcount tricks) with the library under test.
package model

// Bit returns bit i (LSB-first inside each word) of a []uint64 bitmap.
func Bit(words []uint64, i int) int {
	return int(words[i/64] >> (uint(i) % 64) & 1)
}

// Ones returns the positions of all 1-bits in ascending order (naive scan).
func Ones(words []uint64) []int32 {
	var out []int32
	for i := 0; i < 64*len(words); i++ {
		if words[i/64]>>(uint(i)%64)&1 == 1 {
			out = append(out, int32(i))
		}
	}
	return out
}

// WordCount counts the ones of a single word with shifts only.
func WordCount(w uint64) int {
	n := 0
	for ; w != 0; w >>= 1 {
		n += int(w & 1)
	}
	return n
}

// StrBit returns bit k of a byte string, most significant bit of each byte first.
func StrBit(s string, k int) int {
	return int(s[k/8] >> (7 - uint(k)%8) & 1)
}

// StrBits returns the bits [from,to) of s as a []bool.
func StrBits(s string, from, to int) []bool {
	out := make([]bool, 0, to-from)
	for k := from; k < to; k++ {
		out = append(out, StrBit(s, k) == 1)
	}
	return out
}

// CmpBits orders two bit strings lexicographically, a proper prefix first.
func CmpBits(a, b []bool) int {
	for i := 0; i < len(a) && i < len(b); i++ {
		if a[i] != b[i] {
			if b[i] {
				return -1
			}
			return 1
		}
	}
	switch {
	case len(a) < len(b):
		return -1
	case len(a) > len(b):
		return 1
	}
	return 0
}

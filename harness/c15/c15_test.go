// Package c15 decides property C15: TailBitmap never forgets a set bit nor
// invents one, across any Set/Compact history (stateful, model based).
package c15

import (
	"fmt"
	"sort"
	"testing"

	"github.com/openacid/low/bitmap"
	"pgregory.net/rapid"

	"verif/harness/gen"
	"verif/harness/vk"
)

func TestMain(m *testing.M) { vk.Main(m, "C15") }

// Op is one step of a history with concrete arguments (replay needs no rapid).
type Op struct {
	I   int    `json:"i,omitempty"`   // which TailBitmap of the case (0 = the first)
	K   string `json:"k"`             // set | fillword | fillthrough | compact
	A   int64  `json:"a,omitempty"`   // set: idx; fillword: absolute word number; fillthrough: number of words
	B   int64  `json:"b,omitempty"`   // fillword: order 0 front-to-back, 1 back-to-front, 2 permuted by Key
	Key vk.U64 `json:"key,omitempty"` // permutation key
}

type Case struct {
	O        int64   `json:"o"`              // initial offset (multiple of 64) of instance 0
	More     []int64 `json:"more,omitempty"` // initial offsets of further instances that are alive at the same time
	Ops      []Op    `json:"ops"`
	ProbeKey vk.U64  `json:"probe_key"`
	Class    string  `json:"class,omitempty"`
}

var checker = &vk.Checker[Case]{
	ID: "C15",
	Rule: "histories on one to three TailBitmaps that are alive at the same time (after every step the untouched ones are checked too), each from NewTailBitmap(o), o in {0,64,128,64*r up to 2^40, 2^37}, of <= 60 (thorough <= 400) steps drawn state-dependently from a model: Set(idx) below Offset / at Offset / inside word 0 / the LAST missing bit of word 0 (forces compaction) / inside word k>0 / up to 8 (thorough 64) words past the end / more than 1024 words (the initial capacity) past the end / repeats; " +
		"macro steps FillWord(k, front-to-back | back-to-front | permuted) and FillThrough(m words), m in {1,2,3,1023,1024,1025} (crossing the 1024-word reclaim threshold); Compact. Model = o + set of explicitly set indexes. After EVERY step: Offset%64==0, Offset monotone, Offset <= first model zero, first stored word not all-ones after a Set, " +
		"Get1/Get == model over [max(0,Offset-130), end of stored words) (all positions when <= 4096, else boundaries, each word's first/last bit and 512 keyed positions), highest set index below Offset or inside the stored words, Compact changes no Get result. " +
		"One fixed history grows a stored tail beyond 2^31 bits (thorough: beyond 2^32) while word 0 stays incomplete, probed at its ends, around 2^31/2^32 and at every set index. " +
		"Non-trivial: the history advanced Offset at least once and afterwards a stored word (which holds a 0 bit) was probed. Distinct by hash of the history.",
	Check:    check,
	Classify: classify,
}

// ---------------------------------------------------------------- model

type model struct {
	o         int64
	set       map[int64]bool
	firstZero int64
	maxSet    int64
}

func newModel(o int64) *model { return &model{o: o, set: map[int64]bool{}, firstZero: o, maxSet: -1} }

func (m *model) get(j int64) uint64 {
	if j < m.o || m.set[j] {
		return 1
	}
	return 0
}

func (m *model) doSet(j int64) {
	if j >= m.o {
		m.set[j] = true
	}
	if j > m.maxSet {
		m.maxSet = j
	}
	for m.set[m.firstZero] {
		m.firstZero++
	}
}

// expand turns one op into the elementary Set indexes it stands for.
func expand(op Op, m *model) []int64 {
	switch op.K {
	case "set":
		return []int64{op.A}
	case "fillword":
		idx := make([]int64, 64)
		for i := range idx {
			idx[i] = op.A*64 + int64(i)
		}
		switch op.B {
		case 1:
			for i, j := 0, 63; i < j; i, j = i+1, j-1 {
				idx[i], idx[j] = idx[j], idx[i]
			}
		case 2:
			sort.Slice(idx, func(a, b int) bool {
				return vk.Mix(uint64(op.Key)+uint64(idx[a]&63)) < vk.Mix(uint64(op.Key)+uint64(idx[b]&63))
			})
		}
		return idx
	case "fillthrough":
		start := m.firstZero / 64 * 64
		idx := make([]int64, 0, op.A*64)
		for i := int64(0); i < op.A*64; i++ {
			idx = append(idx, start+i)
		}
		return idx
	}
	return nil
}

// ---------------------------------------------------------------- check

// lazyStep formats "step ... after Set(idx)" only when a failure message is built.
type lazyStep struct {
	step string
	idx  int64
}

func (l lazyStep) String() string {
	if l.idx >= 0 {
		return fmt.Sprintf("%s after Set(%d)", l.step, l.idx)
	}
	return l.step
}

type probeRes struct{ g1, g uint64 }

func check(c Case) *vk.Failure {
	// all instances of the case are created up front and stay alive together; tb, m and prevOffset
	// are aliases of the instance the current step works on
	offs := append([]int64{c.O}, c.More...)
	tbs := make([]*bitmap.TailBitmap, len(offs))
	ms := make([]*model, len(offs))
	prevs := make([]int64, len(offs))
	for i, o := range offs {
		i, o := i, o
		if f := vk.Try("NewTailBitmap", func() { tbs[i] = bitmap.NewTailBitmap(o) }); f != nil {
			return f
		}
		ms[i] = newModel(o)
		prevs[i] = tbs[i].Offset
		if tbs[i].Offset != o {
			return vk.Failf("initial-offset", "NewTailBitmap(%d).Offset = %d", o, tbs[i].Offset)
		}
	}
	tb, m, prevOffset := tbs[0], ms[0], prevs[0]
	cur := 0
	use := func(i int) {
		prevs[cur] = prevOffset
		cur = i
		tb, m, prevOffset = tbs[i], ms[i], prevs[i]
	}

	cheap := func(step0 string, idx int64, afterSet bool) *vk.Failure {
		step := lazyStep{step0, idx}
		if tb.Offset%64 != 0 {
			return vk.Failf("offset-alignment", "%s: Offset = %d is not a multiple of 64", step, tb.Offset)
		}
		if tb.Offset < prevOffset {
			return vk.Failf("offset-decreased", "%s: Offset went from %d to %d", step, prevOffset, tb.Offset)
		}
		prevOffset = tb.Offset
		if tb.Offset > m.firstZero {
			return vk.Failf("offset-past-zero", "%s: Offset = %d moved past position %d which is still 0", step, tb.Offset, m.firstZero)
		}
		if afterSet && len(tb.Words) > 0 && tb.Words[0] == ^uint64(0) {
			return vk.Failf("first-word-all-ones", "%s: first stored word is all-ones after a Set (Offset %d)", step, tb.Offset)
		}
		end := tb.Offset + int64(64*len(tb.Words))
		if m.maxSet >= tb.Offset && m.maxSet >= end {
			return vk.Failf("highest-set-not-stored", "%s: highest index ever set %d is neither below Offset %d nor inside the stored words (end %d)", step, m.maxSet, tb.Offset, end)
		}
		return nil
	}

	window := func(stepNo int) []int64 {
		lo := tb.Offset - 130
		if lo < 0 {
			lo = 0
		}
		hi := tb.Offset + int64(64*len(tb.Words))
		var js []int64
		if hi-lo <= 4096 {
			for j := lo; j < hi; j++ {
				js = append(js, j)
			}
			return js
		}
		for j := lo; j < tb.Offset+64 && j < hi; j++ {
			js = append(js, j)
		}
		if nw := int64(len(tb.Words)); nw <= 1<<16 {
			for w := int64(0); w < nw; w++ {
				js = append(js, tb.Offset+64*w, tb.Offset+64*w+63)
			}
		} else { // a huge tail (2^25 words and more): the first and last words, the words around 2^31 and 2^32 bits, every set index and keyed words
			ws := []int64{}
			for w := int64(0); w < 64; w++ {
				ws = append(ws, w, nw-1-w, 1<<25-32+w, 1<<26-32+w)
			}
			for i := 0; i < 2048; i++ {
				ws = append(ws, int64(vk.Mix(uint64(c.ProbeKey)+uint64(stepNo)*7919+uint64(i))%uint64(nw)))
			}
			for _, w := range ws {
				if w >= 0 && w < nw {
					js = append(js, tb.Offset+64*w, tb.Offset+64*w+63, tb.Offset+64*w+int64(vk.Mix(uint64(w))%64))
				}
			}
			if len(m.set) <= 4096 {
				for j := range m.set {
					for _, d := range []int64{-64, -1, 0, 1, 64} {
						if j+d >= lo && j+d < hi {
							js = append(js, j+d)
						}
					}
				}
				sort.Slice(js, func(a, b int) bool { return js[a] < js[b] }) // (map order must not decide the order of the probes)
			}
		}
		js = append(js, hi-1, hi-2, hi-64)
		if m.maxSet >= lo && m.maxSet < hi {
			js = append(js, m.maxSet)
			if m.maxSet+1 < hi {
				js = append(js, m.maxSet+1)
			}
		}
		if m.firstZero >= lo && m.firstZero < hi {
			js = append(js, m.firstZero)
		}
		for i := 0; i < 512; i++ {
			js = append(js, lo+int64(vk.Mix(uint64(c.ProbeKey)+uint64(stepNo)*4096+uint64(i))%uint64(hi-lo)))
		}
		return js
	}

	probe := func(step string, js []int64) ([]probeRes, *vk.Failure) {
		res := make([]probeRes, len(js))
		for i, j := range js {
			var g1, g uint64
			if f := vk.TryF(func() string {
				return fmt.Sprintf("%s: Get/Get1(%d) with Offset %d and %d words", step, j, tb.Offset, len(tb.Words))
			}, func() {
				g1, g = tb.Get1(j), tb.Get(j)
			}); f != nil {
				return nil, f
			}
			want := m.get(j)
			if g1 != want {
				return nil, vk.Failf("get1", "%s: Get1(%d) = %d, model says %d (Offset %d, %d words)", step, j, g1, want, tb.Offset, len(tb.Words))
			}
			if g != want<<(uint64(j)%64) {
				return nil, vk.Failf("get", "%s: Get(%d) = %#x, want %#x (Offset %d, %d words)", step, j, g, want<<(uint64(j)%64), tb.Offset, len(tb.Words))
			}
			res[i] = probeRes{g1, g}
		}
		return res, nil
	}

	// others: after a step on one instance every other live instance must still read like its model
	others := func(si int, step string) *vk.Failure {
		me := cur
		for j := range tbs {
			if j == me {
				continue
			}
			use(j)
			if f := cheap(step+fmt.Sprintf(" [checking instance %d]", j), -1, false); f != nil {
				f.Kind = "other-instance:" + f.Kind
				return f
			}
			if _, f := probe(step+fmt.Sprintf(" [checking instance %d, which this step did not touch]", j), window(si)); f != nil {
				f.Kind = "other-instance:" + f.Kind
				return f
			}
		}
		use(me)
		return nil
	}

	for si, op := range c.Ops {
		if op.I < 0 || op.I >= len(tbs) {
			continue
		}
		use(op.I)
		step := fmt.Sprintf("step %d (instance %d: %s a=%d b=%d)", si, op.I, op.K, op.A, op.B)
		if op.K == "compact" {
			js := window(si)
			before, f := probe(step+" before Compact", js)
			if f != nil {
				return f
			}
			if f := vk.Try(step, func() { tb.Compact() }); f != nil {
				return f
			}
			if f := cheap(step, -1, false); f != nil {
				return f
			}
			// the same positions must read the same (those still below the end of the stored words; Compact never shrinks the end)
			after, f := probe(step+" after Compact", js)
			if f != nil {
				return f
			}
			for i := range js {
				if before[i] != after[i] {
					return vk.Failf("compact-changed-get", "%s: Get(%d) changed from %v to %v", step, js[i], before[i], after[i])
				}
			}
			if f := others(si, step); f != nil {
				return f
			}
			continue
		}
		for _, idx := range expand(op, m) {
			if f := vk.TryF(func() string {
				return fmt.Sprintf("%s: Set(%d) with Offset %d and %d words", step, idx, tb.Offset, len(tb.Words))
			}, func() { tb.Set(idx) }); f != nil {
				return f
			}
			m.doSet(idx)
			if f := cheap(step, idx, true); f != nil {
				return f
			}
		}
		if _, f := probe(step, window(si)); f != nil {
			return f
		}
		if f := others(si, step); f != nil {
			return f
		}
	}
	return nil
}

func classify(c Case) (bool, []string) {
	offs := append([]int64{c.O}, c.More...)
	ms := make([]*model, len(offs))
	for i, o := range offs {
		ms[i] = newModel(o)
	}
	m := ms[0]
	advanced, probedAfter := false, false
	labels := []string{}
	seen := map[string]bool{}
	add := func(l string) {
		if !seen[l] {
			seen[l] = true
			labels = append(labels, l)
		}
	}
	if len(offs) > 1 {
		add(fmt.Sprintf("instances:%d", len(offs)))
	}
	for _, op := range c.Ops {
		if op.I < 0 || op.I >= len(ms) {
			continue
		}
		m = ms[op.I]
		switch op.K {
		case "compact":
			add("has-compact")
		case "fillthrough":
			if op.A >= 1023 {
				add("crossed-reclaim")
			}
		case "fillword":
			add([]string{"fill:front-to-back", "fill:back-to-front", "fill:permuted"}[op.B])
		case "set":
			if op.A < m.firstZero/64*64 {
				add("set-below-offset")
			}
			if m.set[op.A] {
				add("set-repeat")
			}
		}
		for _, idx := range expand(op, m) {
			m.doSet(idx)
		}
		off := m.firstZero / 64 * 64
		if off > offs[op.I] {
			advanced = true
		}
		if op.K == "set" && op.A >= off+64*1024 {
			add("set-more-than-1024-words-ahead")
		}
		if advanced && m.maxSet >= off {
			probedAfter = true
		}
	}
	switch {
	case c.O == 0:
		add("o:0")
	case c.O < 1<<20:
		add("o:small")
	default:
		add("o:huge")
	}
	if advanced {
		add("offset-advanced")
	}
	if c.Class != "" {
		add("class:" + c.Class)
	}
	return advanced && probedAfter, labels
}

// ---------------------------------------------------------------- generator

func genCase(t *rapid.T) Case {
	var o int64
	switch gen.Uniform(t, 6, "oclass") {
	case 0, 1:
		o = 0
	case 2:
		o = 64
	case 3:
		o = 128
	case 4:
		o = 64 * int64(gen.U64(t, "r")%(1<<34))
	default:
		o = 1 << 37
	}
	c := Case{O: o, ProbeKey: vk.U64(gen.U64(t, "probekey"))}
	if gen.Chance(t, 1, 3, "multi") { // several bitmaps alive at the same time
		for k := 1 + gen.Uniform(t, 2, "extra"); k > 0; k-- {
			c.More = append(c.More, []int64{0, 64, 128, 1 << 20, o}[gen.Uniform(t, 5, "o2")])
		}
	}
	offs := append([]int64{c.O}, c.More...)
	ms := make([]*model, len(offs))
	for i, oo := range offs {
		ms[i] = newModel(oo)
	}
	m := ms[0]
	maxSteps := vk.Pick(60, 400)
	n := 1 + gen.Len(t, maxSteps-1, "steps")
	farWords := int64(vk.Pick(8, 64))
	bigBudget := 1 // at most one reclaim-crossing macro per history (65k elementary Sets)
	for i := 0; i < n; i++ {
		inst := gen.Uniform(t, len(ms), "instance")
		m = ms[inst]
		off := m.firstZero / 64 * 64 // where a correct implementation has its Offset
		end := off
		if m.maxSet >= off {
			end = (m.maxSet/64 + 1) * 64
		}
		var op Op
		switch gen.Uniform(t, 16, "opclass") {
		case 0: // below Offset
			if off > 0 {
				op = Op{K: "set", A: off - 1 - int64(gen.U64(t, "below")%uint64(min(off, 200)))}
			} else {
				op = Op{K: "set", A: 0}
			}
		case 1:
			op = Op{K: "set", A: off}
		case 2, 3: // inside word 0
			op = Op{K: "set", A: off + int64(gen.Uniform(t, 64, "bit"))}
		case 4, 5: // the first missing bit of word 0; when it is the last one this forces a compaction
			op = Op{K: "set", A: m.firstZero}
		case 6: // inside a stored word k>0
			k := int64(1 + gen.Uniform(t, 4, "k"))
			op = Op{K: "set", A: off + 64*k + int64(gen.Uniform(t, 64, "bit"))}
		case 7: // past the end
			op = Op{K: "set", A: end + int64(gen.U64(t, "far")%uint64(64*farWords))}
			if gen.Chance(t, 1, 6, "veryfar") { // one Set more than 1024 words (the initial capacity) ahead
				op.A = end + 64*1024 + int64(gen.U64(t, "far2")%(64*40))
			}
		case 8: // repeat something already set
			if m.maxSet >= 0 {
				op = Op{K: "set", A: m.maxSet}
			} else {
				op = Op{K: "set", A: off + 1}
			}
		case 9, 10: // fill word 0 (leaving the generator free to do it in any order)
			op = Op{K: "fillword", A: off / 64, B: int64(gen.Uniform(t, 3, "order")), Key: vk.U64(gen.U64(t, "perm"))}
		case 11: // fill a later word first (out-of-order fill)
			op = Op{K: "fillword", A: off/64 + int64(1+gen.Uniform(t, 3, "k")), B: int64(gen.Uniform(t, 3, "order")), Key: vk.U64(gen.U64(t, "perm"))}
		case 12:
			op = Op{K: "fillthrough", A: int64(1 + gen.Uniform(t, 3, "m"))}
		case 13:
			if bigBudget > 0 && gen.Chance(t, 1, vk.Pick(12, 4), "big") {
				bigBudget--
				op = Op{K: "fillthrough", A: []int64{1023, 1024, 1025}[gen.Uniform(t, 3, "m")]}
			} else {
				op = Op{K: "fillthrough", A: 2}
			}
		default:
			op = Op{K: "compact"}
		}
		op.I = inst
		c.Ops = append(c.Ops, op)
		for _, idx := range expand(op, m) {
			m.doSet(idx)
		}
	}
	return c
}

func TestRegress(t *testing.T) { checker.Regress(t) }

func TestProp(t *testing.T) { checker.Prop(t, genCase) }

// FuzzProp: the same generator driven by the native coverage-guided fuzzer (thorough tier only).
func FuzzProp(f *testing.F) { checker.Fuzz(f, genCase) }

// TestGrid: fixed reclaim-crossing scenarios (deterministic).
func TestGrid(t *testing.T) {
	vk.SetPhase("grid")
	scen := []Case{
		{O: 0, Class: "scenario", ProbeKey: 1, Ops: []Op{{K: "fillthrough", A: 1025}, {K: "set", A: 1025*64 + 5}, {K: "set", A: 1025 * 64}, {K: "compact"}, {K: "fillthrough", A: 1024}, {K: "set", A: 3}, {K: "compact"}}},
		{O: 128, Class: "scenario", ProbeKey: 2, Ops: append(func() []Op {
			var ops []Op
			for k := int64(1030); k >= 3; k-- { // words 3..1030 filled back to front while word 2 (the first) stays open
				ops = append(ops, Op{K: "fillword", A: k, B: k % 3, Key: vk.U64(k)})
			}
			return ops
		}(), Op{K: "fillword", A: 2, B: 1}, Op{K: "compact"}, Op{K: "set", A: 1031*64 + 63}, Op{K: "fillword", A: 1031, B: 2, Key: 7})},
		{O: 1 << 37, Class: "scenario", ProbeKey: 3, Ops: []Op{{K: "set", A: 1<<37 + 64*2000 + 1}, {K: "fillthrough", A: 1023}, {K: "fillthrough", A: 1}, {K: "fillthrough", A: 1}, {K: "compact"}, {K: "fillthrough", A: 1024}, {K: "set", A: 1 << 36}}},
	}
	for _, c := range scen {
		checker.Run(t, c)
	}
}

// TestLast runs at the very end of the process: huge inputs come last, so that what they leave behind (here: half a
// gigabyte of garbage for the collector) cannot disturb the ordinary cases.
func TestLast(t *testing.T) {
	vk.SetPhase("last")
	// a stored tail longer than 2^31 bits (thorough: longer than 2^32 bits): word 0 stays incomplete, so Offset cannot advance
	huge := Case{O: 64, Class: "scenario-huge-tail", ProbeKey: 4, Ops: []Op{{K: "set", A: 64 + 5}, {K: "set", A: 64 + 1<<31 + 77}, {K: "set", A: 64 + 1<<31 - 1}, {K: "set", A: 64 + 1<<31},
		{K: "set", A: 64 + 1<<30 + 3}, {K: "compact"}, {K: "set", A: 64 + 1<<31 + 64*3 + 9}, {K: "set", A: 64 + 6}}}
	if vk.Pick(false, true) {
		huge.Ops = append(huge.Ops, Op{K: "set", A: 64 + 1<<32 + 3}, Op{K: "set", A: 64 + 1<<32 - 1}, Op{K: "compact"}, Op{K: "set", A: 64 + 1<<32 + 64 + 63})
	}
	checker.Run(t, huge)
	checker.RegressLast(t)
}

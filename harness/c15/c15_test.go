// Package c15 decides property C15: TailBitmap never forgets a set bit nor
// invents one, across any Set/Compact history (stateful, model based).
package c15

import (
	"fmt"
	"math/bits"
	"sort"
	"testing"

	"github.com/openacid/low/bitmap"
	"pgregory.net/rapid"

	"verif/harness/gen"
	"verif/harness/vk"
)

func TestMain(m *testing.M) { vk.Main(m, "C15") }

// Op is one step of a history with concrete arguments (replay needs no rapid).
type Op struct {
	I   int    `json:"i,omitempty"`   // which TailBitmap of the case (0 = the first)
	K   string `json:"k"`             // set | fillword | fillthrough | pattern | compact | readall
	A   int64  `json:"a,omitempty"`   // set: idx; fillword: absolute word number; fillthrough: number of words; pattern: first absolute word number
	B   int64  `json:"b,omitempty"`   // fillword: order 0 front-to-back, 1 back-to-front, 2 permuted by Key; pattern: number of words
	Key vk.U64 `json:"key,omitempty"` // permutation key; pattern: decides the content of every word (see wordPattern)
}

type Case struct {
	O        int64   `json:"o"`              // initial offset (multiple of 64) of instance 0
	More     []int64 `json:"more,omitempty"` // initial offsets of further instances that are alive at the same time
	Ops      []Op    `json:"ops"`
	ProbeKey vk.U64  `json:"probe_key"`
	Class    string  `json:"class,omitempty"`
}

var checker = &vk.Checker[Case]{
	ID: "C15",
	Rule: "histories on one to three TailBitmaps that are alive at the same time (after every step the untouched ones are checked too), each from NewTailBitmap(o) (right after it: Offset%64==0, Offset <= o - not necessarily == o - and Get1/Get read 1 at the 4096 positions below o and at the sampled positions of the prefix), o in {0,64,128,64*r up to 2^40, 2^37, 64*r with r of any magnitude up to 2^55}, of <= 60 (thorough <= 400) steps drawn state-dependently from a model: Set(idx) below Offset (within 200, or at any log-uniform distance down to 0) / at Offset / inside word 0 / the LAST missing bit of word 0 (forces compaction) / inside stored word k>0 (one of the first four, or any) / past the end: up to 8 (thorough 64) words, any log-uniform number of words up to 4096, ending around a capacity step (1024/2048/4096 words +-1), 1024..1064 words (beyond the initial capacity), rarely up to 2^17 (thorough 2^21) words / repeats; " +
		"macro steps FillWord(k, front-to-back | back-to-front | permuted), FillThrough(m words), m in {1,2,3,1023,1024,1025} or log-uniform in 4..1100 (crossing the 1024-word reclaim threshold, more often when a stored tail lies beyond the crossing point) and Pattern(first word, n <= 64 words: a keyed word-wise mix of untouched, complete, one-bit, all-but-one-bit, random, dense and run-shaped words); Compact; ReadAll. Model = o + set of explicitly set indexes. After EVERY elementary Set: Offset%64==0, Offset monotone, Offset <= first model zero, first stored word not all-ones, highest set index below Offset or inside the stored words; between the Sets of a macro step also Get1/Get at the bit just set +-1, Offset-1, Offset, the first zero and the last stored bit. After every step " +
		"Get1/Get == model over [max(0,Offset-130), end of stored words) (all positions when <= 4096; else the first word, each word's first/last bit (beyond 2048 words: of the first/last 64 and 512 keyed words, plus a keyed bit), every stored set index with its neighbours at +-1 and +-64 (beyond 1024 of them the latest 256 and 512 keyed ones), boundaries and 512 keyed positions) and over the implicit prefix [0, Offset-130): 0,1,63,64.., around the initial o, fixed and power-of-two distances below Offset, absolute powers of two, keyed log-uniform distances below Offset, keyed log-uniform and uniform absolute positions, keyed positions and word boundaries of the region [o, Offset) that was set and then compacted away; ReadAll reads every position from Offset-8192 to the end (beyond 2048 words: of the first and last 1024 words). Compact changes no Get result. At the end of a history every instance with more than 62 stored words is read like ReadAll once more. No negative bit index is ever passed to Set/Get/Get1 (one in a case file is a harness fault, exit 2). " +
		"Grid: three fixed reclaim-crossing histories, and histories of six threshold crossings each in which the crossing Compact drops n in {1,2,3,4,5,8,33,64,200} words at once and keeps a tail of l words, l = 0,1,2,.. 2^k-1,2^k,2^k+1 .. 4097 and two more sizes (thorough: eight) per octave chosen by the seed of the run, read completely before and after, from o in {0, 64, 2^31-, 2^32-, 2^37, 2^40+, 2^60+ ..}. " +
		"One fixed history grows a stored tail beyond 2^31 bits (thorough: beyond 2^32) while word 0 stays incomplete, passing 2^18, 2^21 and 2^23 words on the way, probed at its ends, around 2^31/2^32 and at every set index. " +
		"Non-trivial: the history advanced Offset at least once and afterwards a stored word (which holds a 0 bit) was probed. Distinct by hash of the history.",
	Check:    check,
	Classify: classify,
}

// ---------------------------------------------------------------- model

// model: the initial offset and the set of explicitly set indexes - kept as a sparse table from j/64 to a 64-bit mask
// of the members j (absolute positions: no offset, nothing is ever dropped or moved).
type model struct {
	o         int64
	set       map[int64]uint64
	firstZero int64
	maxSet    int64
	// live (kept only when track is set: by check, not by the generator): the explicitly set indexes, each once, in
	// the order of their first Set, that are not below the model's offset (firstZero rounded down to 64) yet
	track   bool
	live    []int64
	liveOff int64
}

// liveSet returns the explicitly set indexes that a correct implementation still holds in its stored words.
func (m *model) liveSet() []int64 {
	if off := m.firstZero / 64 * 64; off != m.liveOff {
		m.liveOff = off
		k := 0
		for _, j := range m.live {
			if j >= off {
				m.live[k] = j
				k++
			}
		}
		m.live = m.live[:k]
	}
	return m.live
}

func newModel(o int64) *model {
	return &model{o: o, set: map[int64]uint64{}, firstZero: o, maxSet: -1}
}

// has: j (>= 0) was set explicitly.
func (m *model) has(j int64) bool { return m.set[j/64]>>uint(j%64)&1 == 1 }

func (m *model) get(j int64) uint64 {
	if j < m.o || m.has(j) {
		return 1
	}
	return 0
}

func (m *model) doSet(j int64) {
	if j >= m.o {
		if m.track && !m.has(j) {
			m.live = append(m.live, j)
		}
		m.set[j/64] |= 1 << uint(j%64)
	}
	if j > m.maxSet {
		m.maxSet = j
	}
	for m.has(m.firstZero) {
		m.firstZero++
	}
}

// expand turns one op into the elementary Set indexes it stands for.
func expand(op Op, m *model) []int64 {
	switch op.K {
	case "set":
		return []int64{op.A}
	case "fillword":
		idx := make([]int64, 64)
		for i := range idx {
			idx[i] = op.A*64 + int64(i)
		}
		switch op.B {
		case 1:
			for i, j := 0, 63; i < j; i, j = i+1, j-1 {
				idx[i], idx[j] = idx[j], idx[i]
			}
		case 2:
			sort.Slice(idx, func(a, b int) bool {
				return vk.Mix(uint64(op.Key)+uint64(idx[a]&63)) < vk.Mix(uint64(op.Key)+uint64(idx[b]&63))
			})
		}
		return idx
	case "fillthrough":
		start := m.firstZero / 64 * 64
		idx := make([]int64, 0, op.A*64)
		for i := int64(0); i < op.A*64; i++ {
			idx = append(idx, start+i)
		}
		return idx
	case "pattern":
		var idx []int64
		for w := op.A; w < op.A+op.B; w++ {
			idx = wordPattern(idx, w, uint64(op.Key))
		}
		return idx
	}
	return nil
}

// wordPattern appends the Sets that give absolute word w its content under key: a word-wise mix of untouched, complete
// (both fill directions), single-bit, all-but-one-bit (bit 0, bit 63 or a keyed bit missing), random, dense and run-shaped words.
func wordPattern(idx []int64, w int64, key uint64) []int64 {
	z := vk.Mix(key + uint64(w)*0x9e3779b97f4a7c15)
	base := w * 64
	var mask uint64
	desc := z>>40&1 == 1
	switch z % 10 {
	case 0, 1: // untouched
		return idx
	case 2:
		mask, desc = ^uint64(0), false
	case 3:
		mask, desc = ^uint64(0), true
	case 4:
		mask = 1 << (z >> 8 % 64)
	case 5:
		mask = ^(uint64(1) << []uint64{0, 63, z >> 8 % 64}[z>>16%3])
	case 6:
		mask = vk.Mix(z)
	case 7:
		mask = vk.Mix(z) | vk.Mix(z+1) | vk.Mix(z+2)
	case 8:
		mask = ^uint64(0) >> (z >> 8 % 64)
	default:
		mask = ^uint64(0) << (z >> 8 % 64)
	}
	for i := 0; i < 64; i++ {
		b := i
		if desc {
			b = 63 - i
		}
		if mask>>uint(b)&1 == 1 {
			idx = append(idx, base+int64(b))
		}
	}
	return idx
}

// logScale maps z to [0, n) with a log-uniform magnitude (every octave below n is as likely as any other).
func logScale(z, n uint64) int64 {
	if n == 0 {
		return 0
	}
	k := uint(z>>57)%uint(bits.Len64(n)) + 1 // number of significant bits, 1..Len(n)
	v := vk.Mix(z)
	if k < 64 {
		v = v&(1<<k-1) | 1<<(k-1)
	}
	if k == 1 && z>>56&1 == 0 {
		v = 0
	}
	return int64(v % n)
}

// ---------------------------------------------------------------- check

// lazyStep formats "step ... after Set(idx)" only when a failure message is built.
type lazyStep struct {
	step string
	idx  int64
}

func (l lazyStep) String() string {
	if l.idx >= 0 {
		return fmt.Sprintf("%s after Set(%d)", l.step, l.idx)
	}
	return l.step
}

// readAllWords: see everything() in check.
const readAllWords = 1024

// lazyStr formats only when a failure message is built.
type lazyStr func() string

func (l lazyStr) String() string { return l() }

type probeRes struct{ g1, g uint64 }

func check(c Case) *vk.Failure {
	// all instances of the case are created up front and stay alive together; tb, m and prevOffset
	// are aliases of the instance the current step works on
	offs := append([]int64{c.O}, c.More...)
	tbs := make([]*bitmap.TailBitmap, len(offs))
	ms := make([]*model, len(offs))
	prevs := make([]int64, len(offs))
	for i, o := range offs {
		i, o := i, o
		if f := vk.Try("NewTailBitmap", func() { tbs[i] = bitmap.NewTailBitmap(o) }); f != nil {
			return f
		}
		ms[i] = newModel(o)
		ms[i].track = true
		prevs[i] = tbs[i].Offset
		// what the statement fixes about a fresh bitmap (it does not say Offset == o): a multiple of 64 that lies at or
		// below o - positions from o on are still 0 - and, further down, every position below o reads 1
		if tbs[i].Offset%64 != 0 {
			return vk.Failf("initial-offset", "NewTailBitmap(%d).Offset = %d is not a multiple of 64", o, tbs[i].Offset)
		}
		if tbs[i].Offset > o {
			return vk.Failf("initial-offset", "NewTailBitmap(%d).Offset = %d lies beyond position %d, which is still 0", o, tbs[i].Offset, o)
		}
	}
	tb, m, prevOffset := tbs[0], ms[0], prevs[0]
	cur := 0
	use := func(i int) {
		prevs[cur] = prevOffset
		cur = i
		tb, m, prevOffset = tbs[i], ms[i], prevs[i]
	}

	cheap := func(step0 string, idx int64, afterSet bool) *vk.Failure {
		step := lazyStep{step0, idx}
		if tb.Offset%64 != 0 {
			return vk.Failf("offset-alignment", "%s: Offset = %d is not a multiple of 64", step, tb.Offset)
		}
		if tb.Offset < prevOffset {
			return vk.Failf("offset-decreased", "%s: Offset went from %d to %d", step, prevOffset, tb.Offset)
		}
		prevOffset = tb.Offset
		if tb.Offset > m.firstZero {
			return vk.Failf("offset-past-zero", "%s: Offset = %d moved past position %d which is still 0", step, tb.Offset, m.firstZero)
		}
		if afterSet && len(tb.Words) > 0 && tb.Words[0] == ^uint64(0) {
			return vk.Failf("first-word-all-ones", "%s: first stored word is all-ones after a Set (Offset %d)", step, tb.Offset)
		}
		end := tb.Offset + int64(64*len(tb.Words))
		if m.maxSet >= tb.Offset && m.maxSet >= end {
			return vk.Failf("highest-set-not-stored", "%s: highest index ever set %d is neither below Offset %d nor inside the stored words (end %d)", step, m.maxSet, tb.Offset, end)
		}
		return nil
	}

	// below: positions of the implicit prefix [0, lo) - lo is where the dense part of a window starts. All of them must
	// read 1: those below the initial offset always did, those in [initial offset, Offset) were set one by one and then
	// dropped by compaction. No library call is involved in choosing them.
	below := func(stepNo int, lo int64) []int64 {
		if lo <= 0 {
			return nil
		}
		js := make([]int64, 0, 192)
		add := func(j int64) {
			if j >= 0 && j < lo {
				js = append(js, j)
			}
		}
		for _, j := range []int64{0, 1, 2, 62, 63, 64, 65, 127, 128, 129, 191, 192} {
			add(j)
		}
		for _, d := range []int64{-65, -64, -63, -1, 0, 1, 63, 64, 65} { // around the initial offset: the first positions that were ever stored
			add(m.o + d)
		}
		off := tb.Offset
		for _, d := range []int64{131, 191, 192, 193, 255, 256, 257, 1023, 1024, 1025, 4095, 4096, 4097, 65535, 65536, 65537} {
			add(off - d)
		}
		for k := uint(6); k < 63; k++ { // absolute powers of two and power-of-two distances below Offset; a fifth of them per step
			if (int(k)+stepNo)%5 == 0 {
				add(1<<k - 1)
				add(1 << k)
				add(off - 1<<k - 1)
				add(off - 1<<k)
				add(off - 1<<k + 1)
			}
		}
		key := uint64(c.ProbeKey) ^ 0xb10b10b10b10 + uint64(stepNo)*0x10001
		for i := uint64(0); i < 16; i++ { // log-uniform distance below Offset
			add(off - 1 - logScale(vk.Mix(key+i), uint64(off)))
		}
		for i := uint64(24); i < 32; i++ { // log-uniform absolute position
			add(logScale(vk.Mix(key+i), uint64(lo)))
		}
		for i := uint64(36); i < 44; i++ { // uniform
			add(int64(vk.Mix(key+i) % uint64(lo)))
		}
		if span := off - m.o; span >= 64 { // the region that was set explicitly and compacted away: uniform positions and word boundaries
			for i := uint64(48); i < 56; i++ {
				z := vk.Mix(key + i)
				add(m.o + int64(z%uint64(span)))
				w := int64(vk.Mix(z) % uint64(span/64))
				add(m.o + 64*w)
				add(m.o + 64*w + 63)
			}
		}
		return js
	}

	// neighbours: every explicitly set index that is still stored, with the positions 1 and 64 before and after it
	// (at most 1024 of them: beyond that the most recent 256 and 512 keyed ones)
	neighbours := func(stepNo int, js []int64, lo, hi int64) []int64 {
		live := m.liveSet()
		pick := func(j int64) {
			for _, d := range []int64{-64, -1, 0, 1, 64} {
				if j+d >= lo && j+d < hi {
					js = append(js, j+d)
				}
			}
		}
		if len(live) <= 1024 {
			for _, j := range live {
				pick(j)
			}
			return js
		}
		for _, j := range live[len(live)-256:] {
			pick(j)
		}
		for i := 0; i < 512; i++ {
			pick(live[vk.Mix(uint64(c.ProbeKey)+uint64(stepNo)*3571+uint64(i))%uint64(len(live))])
		}
		return js
	}

	window := func(stepNo int) []int64 {
		lo := tb.Offset - 130
		if lo < 0 {
			lo = 0
		}
		hi := tb.Offset + int64(64*len(tb.Words))
		js := below(stepNo, lo)
		if hi-lo <= 4096 {
			for j := lo; j < hi; j++ {
				js = append(js, j)
			}
			return js
		}
		for j := lo; j < tb.Offset+64 && j < hi; j++ {
			js = append(js, j)
		}
		nw := int64(len(tb.Words))
		switch {
		case nw <= 2048:
			for w := int64(0); w < nw; w++ {
				js = append(js, tb.Offset+64*w, tb.Offset+64*w+63)
			}
		case nw <= 1<<16: // the first and last 64 words and 512 keyed words: first, last and one keyed bit of each
			ws := []int64{}
			for w := int64(0); w < 64; w++ {
				ws = append(ws, w, nw-1-w)
			}
			for _, w := range []int64{1023, 1024, 1025, 2047, 2048, 2049, 4095, 4096, 4097} { // (capacities that append passes through)
				if w < nw {
					ws = append(ws, w, nw-1-w)
				}
			}
			for i := 0; i < 512; i++ {
				ws = append(ws, int64(vk.Mix(uint64(c.ProbeKey)+uint64(stepNo)*7919+uint64(i))%uint64(nw)))
			}
			for _, w := range ws {
				js = append(js, tb.Offset+64*w, tb.Offset+64*w+63, tb.Offset+64*w+int64(vk.Mix(uint64(w)+uint64(stepNo))%64))
			}
		default: // a huge tail (2^25 words and more): the first and last words, the words around 2^31 and 2^32 bits and keyed words
			ws := []int64{}
			for w := int64(0); w < 64; w++ {
				ws = append(ws, w, nw-1-w, 1<<25-32+w, 1<<26-32+w)
			}
			for i := 0; i < 2048; i++ {
				ws = append(ws, int64(vk.Mix(uint64(c.ProbeKey)+uint64(stepNo)*7919+uint64(i))%uint64(nw)))
			}
			for _, w := range ws {
				if w >= 0 && w < nw {
					js = append(js, tb.Offset+64*w, tb.Offset+64*w+63, tb.Offset+64*w+int64(vk.Mix(uint64(w))%64))
				}
			}
		}
		js = neighbours(stepNo, js, lo, hi)
		js = append(js, hi-1, hi-2, hi-64)
		if m.maxSet >= lo && m.maxSet < hi {
			js = append(js, m.maxSet)
			if m.maxSet+1 < hi {
				js = append(js, m.maxSet+1)
			}
		}
		if m.firstZero >= lo && m.firstZero < hi {
			js = append(js, m.firstZero)
		}
		for i := 0; i < 512; i++ {
			js = append(js, lo+int64(vk.Mix(uint64(c.ProbeKey)+uint64(stepNo)*4096+uint64(i))%uint64(hi-lo)))
		}
		return js
	}

	// everything: every position of the stored words and of the 8192 positions before them (a tail of more than
	// 2*readAllWords words: its first and last readAllWords words), on top of the ordinary window
	everything := func(stepNo int) []int64 {
		js := window(stepNo)
		lo := tb.Offset - 8192
		if lo < 0 {
			lo = 0
		}
		hi := tb.Offset + int64(64*len(tb.Words))
		if len(tb.Words) <= 2*readAllWords {
			for j := lo; j < hi; j++ {
				js = append(js, j)
			}
			return js
		}
		for j := lo; j < tb.Offset+64*readAllWords; j++ {
			js = append(js, j)
		}
		for j := hi - 64*readAllWords; j < hi; j++ {
			js = append(js, j)
		}
		return js
	}

	probeL := func(stepL func() string, js []int64) ([]probeRes, *vk.Failure) {
		step := lazyStr(stepL)
		res := make([]probeRes, len(js))
		var cur int64 // the position being read (for the message of a panic)
		var fail *vk.Failure
		if f := vk.TryF(func() string {
			return fmt.Sprintf("%s: Get/Get1(%d) with Offset %d and %d words", step, cur, tb.Offset, len(tb.Words))
		}, func() {
			for i, j := range js {
				if j < 0 { // bit indexes are non-negative: never read (positions derived from an Offset below 130 are clipped anyway)
					continue
				}
				cur = j
				g1, g := tb.Get1(j), tb.Get(j)
				want := m.get(j)
				if g1 != want {
					fail = vk.Failf("get1", "%s: Get1(%d) = %d, model says %d (Offset %d, %d words)", step, j, g1, want, tb.Offset, len(tb.Words))
					return
				}
				if g != want<<(uint64(j)%64) {
					fail = vk.Failf("get", "%s: Get(%d) = %#x, want %#x (Offset %d, %d words)", step, j, g, want<<(uint64(j)%64), tb.Offset, len(tb.Words))
					return
				}
				res[i] = probeRes{g1, g}
			}
		}); f != nil {
			return nil, f
		}
		if fail != nil {
			return nil, fail
		}
		return res, nil
	}
	probe := func(step string, js []int64) ([]probeRes, *vk.Failure) {
		return probeL(func() string { return step }, js)
	}
	var mini []int64

	// others: after a step on one instance every other live instance must still read like its model
	others := func(si int, step string) *vk.Failure {
		me := cur
		for j := range tbs {
			if j == me {
				continue
			}
			use(j)
			if f := cheap(step+fmt.Sprintf(" [checking instance %d]", j), -1, false); f != nil {
				f.Kind = "other-instance:" + f.Kind
				return f
			}
			if _, f := probe(step+fmt.Sprintf(" [checking instance %d, which this step did not touch]", j), window(si)); f != nil {
				f.Kind = "other-instance:" + f.Kind
				return f
			}
		}
		use(me)
		return nil
	}

	// right after construction: every position below o reads 1 (all of the last 4096, the others as in every later window)
	for i := range tbs {
		use(i)
		js := make([]int64, 0, 8192)
		for _, j := range window(0) {
			if j < m.o {
				js = append(js, j)
			}
		}
		for j := max(0, m.o-4096); j < m.o; j++ {
			js = append(js, j)
		}
		if _, f := probe(fmt.Sprintf("right after NewTailBitmap(%d) [instance %d]: a position below the initial offset", m.o, i), js); f != nil {
			f.Kind = "initial:" + f.Kind
			return f
		}
	}
	use(0)

	for si, op := range c.Ops {
		if op.I < 0 || op.I >= len(tbs) {
			continue
		}
		use(op.I)
		step := fmt.Sprintf("step %d (instance %d: %s a=%d b=%d)", si, op.I, op.K, op.A, op.B)
		if op.K == "compact" {
			js := window(si)
			before, f := probe(step+" before Compact", js)
			if f != nil {
				return f
			}
			if f := vk.Try(step, func() { tb.Compact() }); f != nil {
				return f
			}
			if f := cheap(step, -1, false); f != nil {
				return f
			}
			// the same positions must read the same (those still below the end of the stored words; Compact never shrinks the end)
			after, f := probe(step+" after Compact", js)
			if f != nil {
				return f
			}
			for i := range js {
				if before[i] != after[i] {
					return vk.Failf("compact-changed-get", "%s: Get(%d) changed from %v to %v", step, js[i], before[i], after[i])
				}
			}
			if f := others(si, step); f != nil {
				return f
			}
			continue
		}
		if op.K == "readall" {
			if _, f := probe(step, everything(si)); f != nil {
				return f
			}
			if f := others(si, step); f != nil {
				return f
			}
			continue
		}
		idxs := expand(op, m)
		stepMini := step + " (between the Sets of this macro step)"
		for i, idx := range idxs {
			if idx < 0 {
				// bit indexes are non-negative; no generator or grid produces one. A fault of the harness (or of a hand-made
				// case file), never a verdict about the library: the call is not made and the case ends here.
				vk.Infra(fmt.Sprintf("C15 harness: %s asks for Set(%d), a negative bit index - not issued", step, idx))
				return nil
			}
			if f := vk.TryF(func() string {
				return fmt.Sprintf("%s: Set(%d) with Offset %d and %d words", step, idx, tb.Offset, len(tb.Words))
			}, func() { tb.Set(idx) }); f != nil {
				return f
			}
			m.doSet(idx)
			if f := cheap(step, idx, true); f != nil {
				return f
			}
			// between the elementary Sets of a macro step: the bit just set and its neighbours, both sides of Offset, the
			// first zero and the last stored bit (every Set of a short macro, else the Sets at word ends and every 37th)
			if op.K != "set" && i+1 < len(idxs) && (len(idxs) <= 256 || idx&63 == 63 || idx&63 == 0 || i%37 == 0) {
				hi := tb.Offset + int64(64*len(tb.Words))
				mini = mini[:0]
				for _, j := range [...]int64{idx - 1, idx, idx + 1, tb.Offset - 1, tb.Offset, m.firstZero, hi - 1} {
					if j >= 0 && j < hi {
						mini = append(mini, j)
					}
				}
				if _, f := probeL(lazyStep{stepMini, idx}.String, mini); f != nil {
					return f
				}
			}
		}
		if _, f := probe(step, window(si)); f != nil {
			return f
		}
		if f := others(si, step); f != nil {
			return f
		}
	}
	// at the end of the history every instance whose tail is too long for the per-step windows to be complete is read once in full
	for i := range tbs {
		use(i)
		if len(tb.Words) > 62 {
			if _, f := probe(fmt.Sprintf("after the last step (instance %d, read in full)", i), everything(len(c.Ops))); f != nil {
				return f
			}
		}
	}
	return nil
}

func classify(c Case) (bool, []string) {
	offs := append([]int64{c.O}, c.More...)
	ms := make([]*model, len(offs))
	for i, o := range offs {
		ms[i] = newModel(o)
	}
	m := ms[0]
	advanced, probedAfter := false, false
	labels := []string{}
	seen := map[string]bool{}
	add := func(l string) {
		if !seen[l] {
			seen[l] = true
			labels = append(labels, l)
		}
	}
	if len(offs) > 1 {
		add(fmt.Sprintf("instances:%d", len(offs)))
	}
	recl := append([]int64{}, offs...) // where a correct implementation did its last reallocation
	for _, op := range c.Ops {
		if op.I < 0 || op.I >= len(ms) {
			continue
		}
		m = ms[op.I]
		off0 := m.firstZero / 64 * 64
		end0 := off0
		if m.maxSet >= off0 {
			end0 = (m.maxSet/64 + 1) * 64
		}
		switch op.K {
		case "compact":
			add("has-compact")
		case "readall":
			add("has-readall")
		case "pattern":
			add("has-pattern")
		case "fillthrough":
			switch {
			case op.A <= 3:
			case op.A < 1023:
				add("fillthrough:4..1022-words")
			case op.A <= 1025:
				add("fillthrough:1023..1025-words")
			default:
				add("fillthrough:>1025-words")
			}
		case "fillword":
			add([]string{"fill:front-to-back", "fill:back-to-front", "fill:permuted"}[op.B])
		case "set":
			if op.A < off0 {
				add("set-below-offset")
				if op.A < off0-200 {
					add("set-more-than-200-below-offset")
				}
			}
			if op.A >= 0 && m.has(op.A) {
				add("set-repeat")
			}
			if op.A >= end0 {
				switch ahead := (op.A - end0) / 64; {
				case ahead <= 8:
				case ahead < 1023:
					add("set-9..1022-words-past-the-end")
				case ahead <= 1064:
					add("set-1023..1064-words-past-the-end")
				default:
					add("set-more-than-1064-words-past-the-end")
				}
			}
			if op.A > off0+64 && op.A < end0 && (op.A-off0)/64 > 4 {
				add("set-inside-stored-word>4")
			}
		}
		for _, idx := range expand(op, m) {
			m.doSet(idx)
			if o1 := m.firstZero / 64 * 64; o1-recl[op.I] >= 1024*64 { // (the library looks at this after every compaction)
				recl[op.I] = o1
				add("crossed-reclaim")
				if m.maxSet >= o1 {
					add("crossed-reclaim-with-live-tail")
				}
			}
		}
		off := m.firstZero / 64 * 64
		if off > offs[op.I] {
			advanced = true
		}
		if op.K == "set" && op.A >= off+64*1024 {
			add("set-more-than-1024-words-ahead")
		}
		if advanced && m.maxSet >= off {
			probedAfter = true
		}
	}
	switch {
	case c.O == 0:
		add("o:0")
	case c.O < 1<<20:
		add("o:small")
	case c.O <= 1<<40:
		add("o:huge")
	default:
		add("o:beyond-2^40")
	}
	if advanced {
		add("offset-advanced")
	}
	if c.Class != "" {
		add("class:" + c.Class)
	}
	return advanced && probedAfter, labels
}

// ---------------------------------------------------------------- generator

// logU draws a value in [lo, hi] whose magnitude above lo is log-uniform: no size between the small values and hi is left out.
func logU(t *rapid.T, lo, hi int64, label string) int64 {
	if hi <= lo {
		return lo
	}
	return lo + logScale(gen.U64(t, label), uint64(hi-lo)+1)
}

func genCase(t *rapid.T) Case {
	var o int64
	switch gen.Uniform(t, 8, "oclass") {
	case 0, 1:
		o = 0
	case 2:
		o = 64
	case 3:
		o = 128
	case 4:
		o = 64 * int64(gen.U64(t, "r")%(1<<34))
	case 5:
		o = 1 << 37
	default: // any magnitude from 64 up to 2^61
		o = 64 * logU(t, 1, 1<<55, "rlog")
	}
	c := Case{O: o, ProbeKey: vk.U64(gen.U64(t, "probekey"))}
	if gen.Chance(t, 1, 3, "multi") { // several bitmaps alive at the same time
		for k := 1 + gen.Uniform(t, 2, "extra"); k > 0; k-- {
			c.More = append(c.More, []int64{0, 64, 128, 1 << 20, o}[gen.Uniform(t, 5, "o2")])
		}
	}
	offs := append([]int64{c.O}, c.More...)
	ms := make([]*model, len(offs))
	for i, oo := range offs {
		ms[i] = newModel(oo)
	}
	m := ms[0]
	maxSteps := vk.Pick(60, 400)
	n := 1 + gen.Len(t, maxSteps-1, "steps")
	farWords := int64(vk.Pick(8, 64))
	farMax := int64(vk.Pick(1<<17, 1<<21))   // words; the longest jump of one Set
	bigBudget := 1                           // at most one reclaim-crossing macro per history (65k elementary Sets) ...
	wordBudget := int64(vk.Pick(1200, 4000)) // ... and so many words filled by the other macro steps of more than 3 words
	for i := 0; i < n; i++ {
		inst := gen.Uniform(t, len(ms), "instance")
		m = ms[inst]
		off := m.firstZero / 64 * 64 // where a correct implementation has its Offset
		end := off
		if m.maxSet >= off {
			end = (m.maxSet/64 + 1) * 64
		}
		stored := (end - off) / 64
		var op Op
		switch gen.Uniform(t, 18, "opclass") {
		case 0: // below Offset, at any distance
			if off > 0 {
				op = Op{K: "set", A: off - 1 - int64(gen.U64(t, "below")%uint64(min(off, 200)))}
				if gen.Chance(t, 1, 2, "farbelow") {
					op.A = off - 1 - logU(t, 0, off-1, "belowlog")
				}
			} else {
				op = Op{K: "set", A: 0}
			}
		case 1:
			op = Op{K: "set", A: off}
		case 2, 3: // inside word 0
			op = Op{K: "set", A: off + int64(gen.Uniform(t, 64, "bit"))}
		case 4, 5: // the first missing bit of word 0; when it is the last one this forces a compaction
			op = Op{K: "set", A: m.firstZero}
		case 6: // inside a stored word k>0 (any of them; half of the time one of the first four)
			k := int64(1 + gen.Uniform(t, 4, "k"))
			if stored > 5 && gen.Chance(t, 1, 2, "anyk") {
				k = logU(t, 1, stored-1, "klog")
			}
			op = Op{K: "set", A: off + 64*k + int64(gen.Uniform(t, 64, "bit"))}
		case 7: // past the end
			op = Op{K: "set", A: end + int64(gen.U64(t, "far")%uint64(64*farWords))}
			switch gen.Uniform(t, 12, "farclass") {
			case 0, 1: // one Set more than 1024 words (the initial capacity) ahead
				op.A = end + 64*1024 + int64(gen.U64(t, "far2")%(64*40))
			case 2, 3: // any number of words up to 4096: Words passes 1024, 2048 ... on the way
				op.A = end + 64*logU(t, 0, 4096, "farlog") + int64(gen.Uniform(t, 64, "bit"))
			case 4: // the stored words end exactly around a capacity step
				op.A = off + 64*([]int64{1024, 2048, 4096}[gen.Uniform(t, 3, "cap")]+int64(gen.Uniform(t, 3, "d"))-2) + int64(gen.Uniform(t, 64, "bit"))
				if op.A < end {
					op.A = end
				}
			case 5:
				if gen.Chance(t, 1, 3, "huge") {
					op.A = end + 64*logU(t, 4096, farMax, "farlog2") + int64(gen.Uniform(t, 64, "bit"))
				}
			}
		case 8: // repeat something already set
			if m.maxSet >= 0 {
				op = Op{K: "set", A: m.maxSet}
			} else {
				op = Op{K: "set", A: off + 1}
			}
		case 9, 10: // fill word 0 (leaving the generator free to do it in any order)
			op = Op{K: "fillword", A: off / 64, B: int64(gen.Uniform(t, 3, "order")), Key: vk.U64(gen.U64(t, "perm"))}
		case 11: // fill a later word first (out-of-order fill)
			k := int64(1 + gen.Uniform(t, 3, "k"))
			if gen.Chance(t, 1, 3, "anyk") {
				k = logU(t, 1, stored+2, "klog")
			}
			op = Op{K: "fillword", A: off/64 + k, B: int64(gen.Uniform(t, 3, "order")), Key: vk.U64(gen.U64(t, "perm"))}
		case 12:
			op = Op{K: "fillthrough", A: int64(1 + gen.Uniform(t, 3, "m"))}
		case 13:
			// (a stored tail that reaches beyond the crossing point makes the crossing three times as likely)
			if bigBudget > 0 && gen.Chance(t, 1+2*btoi(stored > 1025), vk.Pick(12, 4), "big") {
				bigBudget--
				op = Op{K: "fillthrough", A: []int64{1023, 1024, 1025}[gen.Uniform(t, 3, "m")]}
			} else if wordBudget > 3 && gen.Chance(t, 1, 3, "mid") { // any number of words from 4 on
				op = Op{K: "fillthrough", A: logU(t, 4, min(wordBudget, 1100), "mlog")}
				wordBudget -= op.A
			} else {
				op = Op{K: "fillthrough", A: 2}
			}
		case 14: // a word-wise mix (untouched, complete, one bit, all but one bit, random ...) over the first stored words or further out
			nw := 1 + logU(t, 0, min(wordBudget, 63), "pwords")
			first := off/64 + int64(gen.Uniform(t, 3, "pfirst"))
			if gen.Chance(t, 1, 4, "pfar") {
				first = off/64 + logU(t, 0, stored+8, "pfirstlog")
			}
			op = Op{K: "pattern", A: first, B: nw, Key: vk.U64(gen.U64(t, "pkey"))}
			if nw > 3 {
				wordBudget -= nw
			}
		case 15:
			if stored > 64 && gen.Chance(t, 1, 3, "readall") {
				op = Op{K: "readall"}
			} else {
				op = Op{K: "compact"}
			}
		default:
			op = Op{K: "compact"}
		}
		op.I = inst
		c.Ops = append(c.Ops, op)
		for _, idx := range expand(op, m) {
			m.doSet(idx)
		}
	}
	return c
}

func btoi(b bool) int {
	if b {
		return 1
	}
	return 0
}

func TestRegress(t *testing.T) { checker.Regress(t) }

func TestProp(t *testing.T) { checker.Prop(t, genCase) }

// FuzzProp: the same generator driven by the native coverage-guided fuzzer (thorough tier only).
func FuzzProp(f *testing.F) { checker.Fuzz(f, genCase) }

// TestGrid: fixed reclaim-crossing scenarios (deterministic).
func TestGrid(t *testing.T) {
	vk.SetPhase("grid")
	scen := []Case{
		{O: 0, Class: "scenario", ProbeKey: 1, Ops: []Op{{K: "fillthrough", A: 1025}, {K: "set", A: 1025*64 + 5}, {K: "set", A: 1025 * 64}, {K: "compact"}, {K: "fillthrough", A: 1024}, {K: "set", A: 3}, {K: "compact"}}},
		{O: 128, Class: "scenario", ProbeKey: 2, Ops: append(func() []Op {
			var ops []Op
			for k := int64(1030); k >= 3; k-- { // words 3..1030 filled back to front while word 2 (the first) stays open
				ops = append(ops, Op{K: "fillword", A: k, B: k % 3, Key: vk.U64(k)})
			}
			return ops
		}(), Op{K: "fillword", A: 2, B: 1}, Op{K: "compact"}, Op{K: "set", A: 1031*64 + 63}, Op{K: "fillword", A: 1031, B: 2, Key: 7})},
		{O: 1 << 37, Class: "scenario", ProbeKey: 3, Ops: []Op{{K: "set", A: 1<<37 + 64*2000 + 1}, {K: "fillthrough", A: 1023}, {K: "fillthrough", A: 1}, {K: "fillthrough", A: 1}, {K: "compact"}, {K: "fillthrough", A: 1024}, {K: "set", A: 1 << 36}}},
	}
	vk.ProcsSweep(func() {
		for _, c := range scen {
			checker.Run(t, c)
		}
	})
	modelSelfTest()

	// The Compact call that crosses the 1024-word reclaim threshold, met with every size of stored tail behind it (0, 1, 2 ...
	// 2^k-1, 2^k, 2^k+1 ... 4097 words and seed-dependent sizes in between, a word-wise mix of untouched/complete/partial words) and with 1, 2, 3 ... 200
	// words dropped by that one call; several crossings per history, absolute positions passing 2^31 and 2^32 on the way.
	ls := []int64{0, 1, 2, 3, 4, 5, 7, 8, 9, 15, 16, 17, 31, 32, 33, 63, 64, 65, 127, 128, 129, 255, 256, 257, 511, 512, 513,
		1023, 1024, 1025, 2047, 2048, 2049, 4095, 4096, 4097}
	for k := uint(3); k < 12; k++ { // and two more sizes (thorough: eight) in every octave, one per half, depending on the seed of the run
		for i := uint64(0); i < uint64(vk.Pick(2, 8)); i++ {
			half := int64(1) << (k - 1)
			ls = append(ls, 1<<k+int64(i%2)*half+int64(vk.Mix(uint64(k)*16+i+vk.Seed()*4096)%uint64(half)))
		}
	}
	ns := []int64{1, 2, 3, 1, 4, 1, 64, 2, 1, 200, 5, 1, 3, 8, 1, 2, 33}
	os := []int64{0, 64, 1<<31 - 64*1500, 1 << 37, 1<<32 - 64*2600, 64 * 999, 1<<40 + 128, 1<<60 + 64}
	const perCase = 6
	for ci := 0; ci*perCase < len(ls); ci++ {
		var rounds [][2]int64
		for ri := ci * perCase; ri < len(ls) && ri < (ci+1)*perCase; ri++ {
			rounds = append(rounds, [2]int64{ls[ri], ns[ri%len(ns)]})
		}
		c := reclaimScenario(os[ci%len(os)], rounds, uint64(1000+ci))
		if ci == 0 {
			vk.ProcsSweep(func() { checker.Run(t, c) })
		} else {
			checker.Run(t, c)
		}
	}
}

// reclaimScenario builds a history of len(rounds) crossings of the reclaim threshold. Round {l, n}: with W the first stored
// word, a tail of l words is laid out from word T = W+1023+n on (word T never complete, the last one never empty, the
// others a word-wise mix), the n-1 words before T are filled completely, then words W..W+1022 front to back, and the Set
// that completes word W+1023 makes Compact drop n words at once, reach 1024+n-1 words since the last reallocation and
// keep l words. Everything is read before and after; two Sets far below Offset and one more Set into the tail follow.
func reclaimScenario(o int64, rounds [][2]int64, key uint64) Case {
	c := Case{O: o, Class: "scenario-reclaim", ProbeKey: vk.U64(key)}
	w := o / 64
	for ri, r := range rounds {
		l, n := r[0], r[1]
		z := vk.Mix(key*131 + uint64(ri))
		t := w + 1023 + n
		if l > 1 {
			c.Ops = append(c.Ops, Op{K: "pattern", A: t + 1, B: l - 1, Key: vk.U64(z)})
			c.Ops = append(c.Ops, Op{K: "set", A: (t+l-1)*64 + int64(z>>8%64)})
		}
		if l == 1 || (l > 1 && z&1 == 1) {
			c.Ops = append(c.Ops, Op{K: "set", A: t*64 + int64(z>>16%64)})
		}
		for k := n - 1; k >= 1; k-- {
			c.Ops = append(c.Ops, Op{K: "fillword", A: w + 1023 + k, B: k % 3, Key: vk.U64(z + uint64(k))})
		}
		c.Ops = append(c.Ops, Op{K: "fillthrough", A: 1023}, Op{K: "readall"},
			Op{K: "fillword", A: w + 1023, B: int64(ri % 3), Key: vk.U64(z)}, Op{K: "readall"},
			Op{K: "set", A: o}, Op{K: "set", A: max(0, t*64-64*1024-1)}, Op{K: "compact"})
		if l > 0 {
			c.Ops = append(c.Ops, Op{K: "set", A: (t+l/2)*64 + int64(z>>24%64)}, Op{K: "readall"})
		}
		w = t
	}
	return c
}

// modelSelfTest compares the model's table with a plain map of indexes (a harness fault, not a library fault, if they differ).
func modelSelfTest() {
	m := newModel(128)
	plain := map[int64]bool{}
	for i := uint64(0); i < 20000; i++ {
		z := vk.Mix(i)
		j := int64(z % 4096)
		if z>>32%4 == 0 {
			j = 128 + int64(z>>40%200)
		}
		m.doSet(j)
		if j >= 128 {
			plain[j] = true
		}
		q := int64(vk.Mix(z) % 4200)
		want := uint64(0)
		if q < 128 || plain[q] {
			want = 1
		}
		fz := int64(128)
		for plain[fz] {
			fz++
		}
		if m.get(q) != want || m.firstZero != fz {
			vk.Infra(fmt.Sprintf("c15 model self-test: after %d sets get(%d)=%d want %d, firstZero=%d want %d", i+1, q, m.get(q), want, m.firstZero, fz))
			return
		}
	}
}

// TestLast runs at the very end of the process: huge inputs come last, so that what they leave behind (here: half a
// gigabyte of garbage for the collector) cannot disturb the ordinary cases.
func TestLast(t *testing.T) {
	vk.SetPhase("last")
	// a stored tail longer than 2^31 bits (thorough: longer than 2^32 bits): word 0 stays incomplete, so Offset cannot advance
	huge := Case{O: 64, Class: "scenario-huge-tail", ProbeKey: 4, Ops: []Op{{K: "set", A: 64 + 5},
		// (on the way there the tail passes the sizes between the longest jump of the generator and 2^25 words: 2^18, 2^21, 2^23 words)
		{K: "set", A: 64 + 1<<24 + 3}, {K: "set", A: 64 + 1<<27 - 1}, {K: "set", A: 64 + 1<<27}, {K: "set", A: 64 + 1<<29 + 64*5 + 31},
		{K: "set", A: 64 + 1<<31 + 77}, {K: "set", A: 64 + 1<<31 - 1}, {K: "set", A: 64 + 1<<31},
		{K: "set", A: 64 + 1<<30 + 3}, {K: "compact"}, {K: "set", A: 64 + 1<<31 + 64*3 + 9}, {K: "set", A: 64 + 6}}}
	if vk.Pick(false, true) {
		huge.Ops = append(huge.Ops, Op{K: "set", A: 64 + 1<<32 + 3}, Op{K: "set", A: 64 + 1<<32 - 1}, Op{K: "compact"}, Op{K: "set", A: 64 + 1<<32 + 64 + 63})
	}
	checker.Run(t, huge)
	checker.RegressLast(t)
}

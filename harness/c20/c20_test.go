// Package c20 decides property C20: size.Of is the structural sum of a
// value's parts (oracle by construction: the builder that makes the value
// also computes its expected size from a fixed table).
package c20

import (
	"fmt"
	"reflect"
	"strconv"
	"strings"
	"testing"
	"unsafe"

	"github.com/openacid/low/size"
	"pgregory.net/rapid"

	"verif/harness/gen"
	"verif/harness/vk"
)

func TestMain(m *testing.M) {
	if unsafe.Sizeof(uintptr(0)) != 8 {
		vk.Infra("C20 assumes a 64-bit platform")
	}
	vk.Main(m, "C20")
}

// T describes a type, V a value of that type. Together they are the case.
type T struct {
	K      string `json:"k"`                // scalar kind name | string | array | slice | map | ptr | iface | struct | named1 | named2 | shared
	Elem   *T     `json:"elem,omitempty"`   // array/slice/ptr/map value/shared pointee
	Key    *T     `json:"key,omitempty"`    // map key
	Len    int    `json:"len,omitempty"`    // array length
	Fields []T    `json:"fields,omitempty"` // struct
}

type V struct {
	Nil   bool `json:"nil,omitempty"`   // slice/map/ptr/iface
	Len   int  `json:"len,omitempty"`   // string length
	I     int  `json:"i,omitempty"`     // scalar payload / map-key ordinal
	Elems []V  `json:"elems,omitempty"` // array/slice elements, struct fields, ptr pointee (1), map values, iface dynamic value (1), named parts
	Keys  []V  `json:"keys,omitempty"`  // map keys (ordinal in I makes them distinct)
	Dyn   *T   `json:"dyn,omitempty"`   // iface: dynamic type
}

type Case struct {
	T       T      `json:"t"`
	V       V      `json:"v"`
	NilArg  bool   `json:"nil_arg,omitempty"` // size.Of(nil)
	Class   string `json:"class,omitempty"`
	Depth   int    `json:"stat_depth,omitempty"`
	MaxItem int    `json:"stat_max_item,omitempty"`
}

var checker = &vk.Checker[Case]{
	ID: "C20",
	Rule: "random acyclic (type, value) trees, depth <= 4, fan-out <= 4, built with reflect (StructOf, SliceOf, MapOf, ArrayOf, PtrTo): every scalar kind incl. int, uint, uintptr and complex; strings (incl. empty); arrays (len 0..3); slices and maps (nil / empty / non-empty; map keys string, ints, bool, small arrays/structs, interface{} holding a scalar or string; distinct by construction); " +
		"pointers (nil / to a fresh value; a class with two pointers to one pointee); interface{} fields/elements (nil / holding any generated value); structs with 0..4 fields, hand-declared named structs with unexported fields, two different local struct types that print the same type name, and structs whose slices are overlapping views of one backing array; top-level nil. Oracle by construction: the builder returns the expected size (widths from a fixed 64-bit table, headers 16/24/8/8/16 once per string/slice/map/pointer/interface node, arrays/structs the plain sum). " +
		"size.Of(v) == expected, no panic, and the number after the last ': ' on the first line of Stat(v, depth, maxItem) == expected. Grid: every scalar kind alone and inside a struct, slice, array, map value, pointer, interface. Non-trivial: a header-carrying kind nested inside another header-carrying kind. Distinct by hash of the case.",
	Check:    check,
	Classify: classify,
}

var scalarKinds = []string{"bool", "int", "int8", "int16", "int32", "int64", "uint", "uint8", "uint16", "uint32", "uint64", "uintptr", "float32", "float64", "complex64", "complex128"}

var scalarWidth = map[string]int{"bool": 1, "int": 8, "int8": 1, "int16": 2, "int32": 4, "int64": 8, "uint": 8, "uint8": 1, "uint16": 2, "uint32": 4, "uint64": 8, "uintptr": 8, "float32": 4, "float64": 8, "complex64": 8, "complex128": 16}

var scalarType = map[string]reflect.Type{
	"bool": reflect.TypeOf(false), "int": reflect.TypeOf(int(0)), "int8": reflect.TypeOf(int8(0)), "int16": reflect.TypeOf(int16(0)), "int32": reflect.TypeOf(int32(0)), "int64": reflect.TypeOf(int64(0)),
	"uint": reflect.TypeOf(uint(0)), "uint8": reflect.TypeOf(uint8(0)), "uint16": reflect.TypeOf(uint16(0)), "uint32": reflect.TypeOf(uint32(0)), "uint64": reflect.TypeOf(uint64(0)), "uintptr": reflect.TypeOf(uintptr(0)),
	"float32": reflect.TypeOf(float32(0)), "float64": reflect.TypeOf(float64(0)), "complex64": reflect.TypeOf(complex64(0)), "complex128": reflect.TypeOf(complex128(0)),
}

var ifaceType = reflect.TypeOf((*interface{})(nil)).Elem()

// hand-declared named structs with unexported fields
type named1 struct {
	a int32
	b string
	c []uint16
	D *int64
}

type named2 struct {
	x  uint
	y  map[string]uintptr
	in interface{}
	z  [2]bool
}

// Two different struct types whose reflect.Type.String() is the same ("c20.rec"): local types
// declared in two functions. Anything the library keys by the printed type name mixes them up.
func mkRecA(v V) (reflect.Value, int) {
	type rec struct {
		a int8
		b string
		c int64
		d []uint16
	}
	r := rec{a: int8(v.I), b: strings.Repeat("a", max(v.Len, 0)), c: 7}
	if !v.Nil {
		r.d = make([]uint16, len(v.Elems))
	}
	return reflect.ValueOf(r), 1 + 16 + len(r.b) + 8 + 24 + 2*len(r.d)
}

func mkRecB(v V) (reflect.Value, int) {
	type rec struct {
		b string
		d map[string]int32
		a int32
		e *int16
		f bool
	}
	r := rec{b: strings.Repeat("b", max(v.Len, 0)), a: int32(v.I)}
	sum := 16 + len(r.b) + 8 + 4 + 8 + 1
	if !v.Nil {
		r.d = map[string]int32{}
		for i := range v.Elems {
			k := fmt.Sprintf("k%d", i)
			r.d[k] = int32(i)
			sum += 16 + len(k) + 4
		}
	}
	if v.I%2 == 1 {
		x := int16(v.I)
		r.e = &x
		sum += 2
	}
	return reflect.ValueOf(r), sum
}

func isScalar(k string) bool { _, ok := scalarWidth[k]; return ok }

func goType(t T) reflect.Type {
	switch t.K {
	case "string":
		return reflect.TypeOf("")
	case "array":
		return reflect.ArrayOf(t.Len, goType(*t.Elem))
	case "slice":
		return reflect.SliceOf(goType(*t.Elem))
	case "map":
		return reflect.MapOf(goType(*t.Key), goType(*t.Elem))
	case "ptr":
		return reflect.PtrTo(goType(*t.Elem))
	case "iface":
		return ifaceType
	case "struct":
		fs := make([]reflect.StructField, len(t.Fields))
		for i, f := range t.Fields {
			fs[i] = reflect.StructField{Name: "F" + strconv.Itoa(i), Type: goType(f)}
		}
		return reflect.StructOf(fs)
	case "overlap":
		et := goType(*t.Elem)
		st := reflect.SliceOf(et)
		return reflect.StructOf([]reflect.StructField{{Name: "All", Type: st}, {Name: "Head", Type: st}, {Name: "None", Type: st}, {Name: "Tail", Type: st}})
	case "recA":
		v, _ := mkRecA(V{})
		return v.Type()
	case "recB":
		v, _ := mkRecB(V{})
		return v.Type()
	case "named1":
		return reflect.TypeOf(named1{})
	case "named2":
		return reflect.TypeOf(named2{})
	case "shared":
		pt := reflect.PtrTo(goType(*t.Elem))
		return reflect.StructOf([]reflect.StructField{{Name: "P", Type: pt}, {Name: "Q", Type: pt}})
	}
	return scalarType[t.K]
}

func elemV(v V, i int) V {
	if i < len(v.Elems) {
		return v.Elems[i]
	}
	return V{}
}

// padString extends s to n bytes with a filler chosen by k: ASCII, multi-byte UTF-8 sequences (2, 3 and 4
// bytes, possibly cut in the middle), invalid UTF-8 and NUL bytes - a string's size is its BYTES.
func padString(s string, n, k int) string {
	fill := []string{"x", "\u00e9", "\u4e2d\u6587", "\U0001F600", "\x00", "\xff\x80", "a\u00e9\x00\U0001F601"}[k%7]
	for len(s) < n {
		s += fill
	}
	if len(s) > n && n >= 4 {
		s = s[:n]
	}
	return s
}

// build makes the value and computes its expected structural size.
func build(t T, v V) (reflect.Value, int) {
	rt := goType(t)
	out := reflect.New(rt).Elem()
	switch t.K {
	case "string":
		n := max(v.Len, 0)
		s := fmt.Sprintf("k%03d", v.I)
		if n < len(s) && v.I == 0 {
			s = s[:n]
		}
		s = padString(s, n, v.I)
		out.SetString(s)
		return out, 16 + len(s)
	case "array":
		sum := 0
		for i := 0; i < t.Len; i++ {
			e, sz := build(*t.Elem, elemV(v, i))
			out.Index(i).Set(e)
			sum += sz
		}
		return out, sum
	case "slice":
		if v.Nil {
			return out, 24
		}
		sl := reflect.MakeSlice(rt, len(v.Elems), len(v.Elems)+v.I%3)
		sum := 24
		for i := range v.Elems {
			e, sz := build(*t.Elem, v.Elems[i])
			sl.Index(i).Set(e)
			sum += sz
		}
		out.Set(sl)
		return out, sum
	case "map":
		if v.Nil {
			return out, 8
		}
		m := reflect.MakeMap(rt)
		sum := 8
		for i := range v.Keys {
			kv := v.Keys[i]
			kv.I = i // ordinal: keys are distinct by construction
			k, ksz := buildKey(*t.Key, kv, i)
			e, esz := build(*t.Elem, elemV(v, i))
			m.SetMapIndex(k, e)
			sum += ksz + esz
		}
		out.Set(m)
		return out, sum
	case "ptr":
		if v.Nil {
			return out, 8
		}
		e, sz := build(*t.Elem, elemV(v, 0))
		p := reflect.New(e.Type())
		p.Elem().Set(e)
		out.Set(p)
		return out, 8 + sz
	case "iface":
		if v.Nil || v.Dyn == nil {
			return out, 16
		}
		e, sz := build(*v.Dyn, elemV(v, 0))
		out.Set(e)
		return out, 16 + sz
	case "struct":
		sum := 0
		for i, f := range t.Fields {
			e, sz := build(f, elemV(v, i))
			out.Field(i).Set(e)
			sum += sz
		}
		return out, sum
	case "overlap":
		// four views of one backing array: all of it, a prefix (same start address, shorter), the empty
		// prefix, and a suffix; the structural sum counts the elements of every view
		n := max(v.Len, 1)
		k := v.I % (n + 1)
		all := reflect.MakeSlice(reflect.SliceOf(goType(*t.Elem)), n, n)
		esz := 0
		for i := 0; i < n; i++ {
			e, sz := build(*t.Elem, V{I: i})
			all.Index(i).Set(e)
			esz = sz
		}
		out.Field(0).Set(all)
		out.Field(1).Set(all.Slice(0, k))
		out.Field(2).Set(all.Slice(0, 0))
		out.Field(3).Set(all.Slice(k, n))
		return out, 4*24 + esz*(n+k+0+(n-k))
	case "recA":
		return mkRecA(v)
	case "recB":
		return mkRecB(v)
	case "named1":
		n := named1{a: int32(v.I), b: strings.Repeat("b", max(v.Len, 0))}
		sum := 4 + 16 + len(n.b)
		if !v.Nil {
			n.c = make([]uint16, len(v.Elems))
		}
		sum += 24 + 2*len(n.c)
		sum += 8
		if v.I%2 == 1 {
			x := int64(v.I)
			n.D = &x
			sum += 8
		}
		return reflect.ValueOf(n), sum
	case "named2":
		n := named2{x: uint(v.I)}
		sum := 8
		sum += 8
		if !v.Nil {
			n.y = map[string]uintptr{}
			for i := range v.Elems {
				k := fmt.Sprintf("key%d", i)
				n.y[k] = uintptr(i)
				sum += 16 + len(k) + 8
			}
		}
		sum += 16
		if v.Len > 0 {
			n.in = strings.Repeat("s", v.Len)
			sum += 16 + v.Len
		}
		sum += 2
		return reflect.ValueOf(n), sum
	case "shared":
		if v.Nil {
			return out, 16
		}
		e, sz := build(*t.Elem, elemV(v, 0))
		p := reflect.New(e.Type())
		p.Elem().Set(e)
		out.Field(0).Set(p)
		out.Field(1).Set(p)
		return out, 2 * (8 + sz) // the structural definition counts the pointee once per pointer
	}
	// scalars
	switch t.K {
	case "bool":
		out.SetBool(v.I%2 == 1)
	case "int", "int8", "int16", "int32", "int64":
		out.SetInt(int64(v.I % 100))
	case "uint", "uint8", "uint16", "uint32", "uint64", "uintptr":
		out.SetUint(uint64(v.I % 100))
	case "float32", "float64":
		out.SetFloat(float64(v.I) / 2)
	default:
		out.SetComplex(complex(float64(v.I), 1))
	}
	return out, scalarWidth[t.K]
}

// buildKey builds the i-th map key; the ordinal makes keys distinct.
func buildKey(t T, v V, i int) (reflect.Value, int) {
	switch t.K {
	case "bool":
		out := reflect.New(scalarType["bool"]).Elem()
		out.SetBool(i%2 == 1)
		return out, 1
	case "iface":
		// interface{} key holding an int or a string, alternating
		out := reflect.New(ifaceType).Elem()
		if i%2 == 0 {
			out.Set(reflect.ValueOf(i))
			return out, 16 + 8
		}
		s := fmt.Sprintf("ik%d", i)
		out.Set(reflect.ValueOf(s))
		return out, 16 + 16 + len(s)
	case "array": // [2]int16 with the ordinal in element 0
		out := reflect.New(goType(t)).Elem()
		out.Index(0).SetInt(int64(i))
		return out, 4
	case "struct": // struct{F0 int32; F1 string}
		out := reflect.New(goType(t)).Elem()
		out.Field(0).SetInt(int64(i))
		s := padString("", v.Len%5+4*(i%2), i)[:v.Len%5]
		out.Field(1).SetString(s)
		return out, 4 + 16 + len(s)
	case "string":
		v.I = i
		if v.Len < 4 {
			v.Len = 4
		}
		return build(t, v)
	}
	v.I = i
	return build(t, v)
}

func maxKeys(t T) int {
	if t.K == "bool" {
		return 2
	}
	if t.K == "int8" || t.K == "uint8" {
		return 4
	}
	return 4
}

func check(c Case) *vk.Failure {
	if c.NilArg {
		var got int
		if f := vk.Try("size.Of(nil)", func() { got = size.Of(nil) }); f != nil {
			return f
		}
		if got != 0 {
			return vk.Failf("of-nil", "size.Of(nil) = %d, want 0", got)
		}
		return nil
	}
	val, want := build(c.T, c.V)
	arg := val.Interface()
	typ := val.Type().String()
	if len(typ) > 300 {
		typ = typ[:300] + "..."
	}
	var got int
	if f := vk.Try(fmt.Sprintf("size.Of(value of type %s)", typ), func() { got = size.Of(arg) }); f != nil {
		f.Kind = "of-panic"
		return f
	}
	if got != want {
		return vk.Failf("of", "size.Of(%s value %+v) = %d, want %d", typ, c.V, got, want)
	}
	var st string
	depth, maxItem := max(c.Depth, 1), max(c.MaxItem, 1) // positive bounds only (what callers pass; <= 0 is undefined)
	if f := vk.Try(fmt.Sprintf("size.Stat(value of type %s, %d, %d)", typ, depth, maxItem), func() { st = size.Stat(arg, depth, maxItem) }); f != nil {
		f.Kind = "stat-panic"
		return f
	}
	first := strings.SplitN(st, "\n", 2)[0]
	k := strings.LastIndex(first, ": ")
	if k < 0 {
		return vk.Failf("stat-format", "first line of Stat has no ': ': %q", first)
	}
	n, err := strconv.Atoi(strings.TrimSpace(first[k+2:]))
	if err != nil {
		return vk.Failf("stat-format", "first line of Stat does not end in a number: %q", first)
	}
	if n != want {
		return vk.Failf("stat", "first line of Stat(%s value) reports %d, want %d (line %q)", typ, n, want, first)
	}
	return nil
}

func header(k string) bool {
	switch k {
	case "string", "slice", "map", "ptr", "iface", "named1", "named2", "shared", "recA", "recB", "overlap":
		return true
	}
	return false
}

// nested reports whether a header-carrying node sits (non-nil) inside another one.
func nested(t T, v V, inside bool) bool {
	h := header(t.K)
	if h && inside {
		return true
	}
	switch t.K {
	case "array", "struct":
		for i := range v.Elems {
			var et T
			if t.K == "array" {
				et = *t.Elem
			} else if i < len(t.Fields) {
				et = t.Fields[i]
			} else {
				continue
			}
			if nested(et, v.Elems[i], inside) {
				return true
			}
		}
	case "slice", "ptr", "shared":
		if v.Nil {
			return false
		}
		for i := range v.Elems {
			if nested(*t.Elem, v.Elems[i], true) {
				return true
			}
		}
	case "map":
		if v.Nil {
			return false
		}
		if len(v.Keys) > 0 && (header(t.Key.K) || header(t.Elem.K)) {
			return true
		}
	case "iface":
		if !v.Nil && v.Dyn != nil {
			return nested(*v.Dyn, elemV(v, 0), true)
		}
	case "named1", "named2", "recA", "recB", "overlap":
		return true
	}
	return false
}

func kinds(t T, v V, seen map[string]bool) {
	seen[t.K] = true
	switch t.K {
	case "array", "slice", "ptr", "shared":
		kinds(*t.Elem, elemV(v, 0), seen)
	case "map":
		kinds(*t.Key, V{}, seen)
		kinds(*t.Elem, elemV(v, 0), seen)
	case "struct":
		for i, f := range t.Fields {
			kinds(f, elemV(v, i), seen)
		}
	case "iface":
		if v.Dyn != nil && !v.Nil {
			kinds(*v.Dyn, elemV(v, 0), seen)
		}
	}
}

func classify(c Case) (bool, []string) {
	if c.NilArg {
		return false, []string{"nil-argument"}
	}
	seen := map[string]bool{}
	kinds(c.T, c.V, seen)
	labels := []string{"top:" + c.T.K}
	for _, k := range []string{"uint", "uintptr", "int", "map", "iface", "ptr", "slice", "string", "array", "struct", "complex64", "complex128", "named1", "named2", "shared", "recA", "recB", "overlap"} {
		if seen[k] {
			labels = append(labels, "has:"+k)
		}
	}
	if c.Class != "" {
		labels = append(labels, "class:"+c.Class)
	}
	return nested(c.T, c.V, false), labels
}

// ---------------------------------------------------------------- generator

func genType(t *rapid.T, depth int, allowIface bool) T {
	if depth <= 0 || (depth < 4 && gen.Chance(t, 1, 3, "leaf")) || (depth >= 4 && gen.Chance(t, 1, 12, "leaf")) {
		if gen.Chance(t, 1, 5, "str") {
			return T{K: "string"}
		}
		return T{K: scalarKinds[gen.Uniform(t, len(scalarKinds), "scalar")]}
	}
	switch gen.Uniform(t, 10, "composite") {
	case 0:
		e := genType(t, depth-1, true)
		return T{K: "array", Elem: &e, Len: gen.Uniform(t, 4, "alen")}
	case 1, 2:
		e := genType(t, depth-1, true)
		return T{K: "slice", Elem: &e}
	case 3:
		e := genType(t, depth-1, true)
		k := genKeyType(t)
		return T{K: "map", Key: &k, Elem: &e}
	case 4:
		e := genType(t, depth-1, true)
		return T{K: "ptr", Elem: &e}
	case 5:
		if allowIface {
			return T{K: "iface"}
		}
		return T{K: "string"}
	case 6:
		return T{K: []string{"named1", "named2", "recA", "recB"}[gen.Uniform(t, 4, "named")]}
	case 7:
		if gen.Chance(t, 1, 2, "overlap") {
			e := T{K: scalarKinds[gen.Uniform(t, len(scalarKinds), "oscalar")]}
			return T{K: "overlap", Elem: &e}
		}
		e := genType(t, depth-1, true)
		return T{K: "shared", Elem: &e}
	default:
		n := gen.Uniform(t, 5, "nfields")
		fs := make([]T, n)
		for i := range fs {
			fs[i] = genType(t, depth-1, true)
		}
		return T{K: "struct", Fields: fs}
	}
}

func genKeyType(t *rapid.T) T {
	switch gen.Uniform(t, 8, "keytype") {
	case 0, 1:
		return T{K: "string"}
	case 2:
		return T{K: "bool"}
	case 3:
		e := T{K: "int16"}
		return T{K: "array", Elem: &e, Len: 2}
	case 4:
		return T{K: "struct", Fields: []T{{K: "int32"}, {K: "string"}}}
	case 5:
		return T{K: "iface"}
	default:
		ints := []string{"int", "int8", "int16", "int32", "int64", "uint", "uint8", "uint16", "uint32", "uint64", "uintptr"}
		return T{K: ints[gen.Uniform(t, len(ints), "intkey")]}
	}
}

func genValue(t *rapid.T, ty T, depth int) V {
	v := V{I: gen.Uniform(t, 50, "i")}
	switch ty.K {
	case "string":
		v.Len = gen.Len(t, 12, "slen")
	case "array":
		for i := 0; i < ty.Len; i++ {
			v.Elems = append(v.Elems, genValue(t, *ty.Elem, depth-1))
		}
	case "slice":
		switch gen.Uniform(t, 4, "state") {
		case 0:
			v.Nil = true
		case 1:
		default:
			n := 1 + gen.Uniform(t, 4, "n")
			for i := 0; i < n; i++ {
				v.Elems = append(v.Elems, genValue(t, *ty.Elem, depth-1))
			}
		}
	case "map":
		switch gen.Uniform(t, 4, "state") {
		case 0:
			v.Nil = true
		case 1:
		default:
			n := 1 + gen.Uniform(t, maxKeys(*ty.Key), "n")
			if ty.Key.K == "bool" {
				n = min(n, 2)
			}
			for i := 0; i < n; i++ {
				v.Keys = append(v.Keys, V{Len: gen.Uniform(t, 8, "klen")})
				v.Elems = append(v.Elems, genValue(t, *ty.Elem, depth-1))
			}
		}
	case "ptr", "shared":
		if gen.Chance(t, 1, 4, "nil") {
			v.Nil = true
		} else {
			v.Elems = []V{genValue(t, *ty.Elem, depth-1)}
		}
	case "iface":
		if gen.Chance(t, 1, 4, "nil") || depth <= 0 {
			v.Nil = true
		} else {
			d := genType(t, depth-1, false)
			v.Dyn = &d
			v.Elems = []V{genValue(t, d, depth-1)}
		}
	case "struct":
		for _, f := range ty.Fields {
			v.Elems = append(v.Elems, genValue(t, f, depth-1))
		}
	case "overlap":
		v.Len = 1 + gen.Uniform(t, 9, "n")
		v.I = gen.Uniform(t, 12, "k")
	case "named1", "named2", "recA", "recB":
		v.Len = gen.Uniform(t, 6, "len")
		v.Nil = gen.Chance(t, 1, 3, "nil")
		n := gen.Uniform(t, 4, "n")
		v.Elems = make([]V, n)
	}
	return v
}

func genCase(t *rapid.T) Case {
	if gen.Chance(t, 1, 200, "nilarg") {
		return Case{NilArg: true}
	}
	ty := genType(t, 4, false)
	return Case{T: ty, V: genValue(t, ty, 4), Depth: []int{1, 2, 3, 10, 100, 1 << 20}[gen.Uniform(t, 6, "depth")], MaxItem: []int{1, 2, 3, 100, 1 << 20}[gen.Uniform(t, 5, "maxitem")]} // (callers pass positive bounds; <= 0 is undefined)
}

func TestRegress(t *testing.T) { checker.Regress(t) }

func TestProp(t *testing.T) { checker.Prop(t, genCase) }

// FuzzProp: the same generator driven by the native coverage-guided fuzzer (thorough tier only).
func FuzzProp(f *testing.F) { checker.Fuzz(f, genCase) }

// TestGrid: every scalar kind (and string) alone and one level inside every container.
func TestGrid(t *testing.T) {
	vk.SetPhase("grid")
	leaves := append([]string{"string"}, scalarKinds...)
	checker.Run(t, Case{NilArg: true, Class: "grid"})
	for _, k := range leaves {
		leaf := T{K: k}
		lv := V{I: 3, Len: 5}
		wrap := []struct {
			t T
			v V
		}{
			{leaf, lv},
			{T{K: "struct", Fields: []T{leaf}}, V{Elems: []V{lv}}},
			{T{K: "struct", Fields: []T{{K: "int8"}, leaf, {K: "string"}}}, V{Elems: []V{{}, lv, {Len: 2}}}},
			{T{K: "slice", Elem: &leaf}, V{Elems: []V{lv, lv}}},
			{T{K: "slice", Elem: &leaf}, V{Nil: true}},
			{T{K: "slice", Elem: &leaf}, V{}},
			{T{K: "array", Elem: &leaf, Len: 3}, V{Elems: []V{lv, lv, lv}}},
			{T{K: "array", Elem: &leaf, Len: 0}, V{}},
			{T{K: "map", Key: &T{K: "string"}, Elem: &leaf}, V{Keys: []V{{Len: 4}, {Len: 6}}, Elems: []V{lv, lv}}},
			{T{K: "map", Key: &T{K: "string"}, Elem: &leaf}, V{Nil: true}},
			{T{K: "ptr", Elem: &leaf}, V{Elems: []V{lv}}},
			{T{K: "ptr", Elem: &leaf}, V{Nil: true}},
			{T{K: "struct", Fields: []T{{K: "iface"}}}, V{Elems: []V{{Dyn: &leaf, Elems: []V{lv}}}}},
			{T{K: "struct", Fields: []T{{K: "iface"}}}, V{Elems: []V{{Nil: true}}}},
			{T{K: "shared", Elem: &leaf}, V{Elems: []V{lv}}},
		}
		for _, w := range wrap {
			for _, d := range []int{1, 2} {
				checker.Run(t, Case{T: w.t, V: w.v, Class: "grid", Depth: d, MaxItem: 3})
			}
		}
	}
	for _, kt := range []T{{K: "bool"}, {K: "int"}, {K: "uint"}, {K: "uintptr"}, {K: "iface"}, {K: "array", Elem: &T{K: "int16"}, Len: 2}, {K: "struct", Fields: []T{{K: "int32"}, {K: "string"}}}} {
		kt := kt
		checker.Run(t, Case{T: T{K: "map", Key: &kt, Elem: &T{K: "string"}}, V: V{Keys: []V{{Len: 1}, {Len: 2}}, Elems: []V{{Len: 3}, {Len: 0}}}, Class: "grid", Depth: 1, MaxItem: 1})
	}
	for _, ek := range []string{"int32", "uint8", "complex128"} {
		ek := ek
		for _, nk := range [][2]int{{8, 2}, {8, 0}, {8, 8}, {1, 1}, {5, 3}} {
			for _, d := range []int{1, 2, 3} {
				checker.Run(t, Case{T: T{K: "overlap", Elem: &T{K: ek}}, V: V{Len: nk[0], I: nk[1]}, Class: "grid-overlap", Depth: d, MaxItem: 2})
			}
		}
	}
	for _, k := range []string{"recA", "recB", "recA", "recB"} { // same printed type name, different layouts, alternating
		checker.Run(t, Case{T: T{K: k}, V: V{I: 3, Len: 4, Elems: make([]V, 3)}, Class: "grid", Depth: 2, MaxItem: 3})
		checker.Run(t, Case{T: T{K: "slice", Elem: &T{K: k}}, V: V{Elems: []V{{I: 1, Len: 2, Elems: make([]V, 2)}, {I: 2, Nil: true}}}, Class: "grid", Depth: 1, MaxItem: 1})
	}
	// large containers (size thresholds of any bulk fast path)
	for _, n := range []int{1023, 1024, 1025, 70001} {
		for _, ek := range []string{"int32", "uint8", "string", "iface"} {
			ek := ek
			elems := make([]V, n)
			for i := range elems {
				elems[i] = V{I: i % 50, Len: i % 7}
				if ek == "iface" {
					elems[i] = V{Dyn: &T{K: "uint16"}, Elems: []V{{I: i % 9}}}
					if i%5 == 0 {
						elems[i] = V{Nil: true}
					}
				}
			}
			checker.Run(t, Case{T: T{K: "slice", Elem: &T{K: ek}}, V: V{Elems: elems}, Class: "grid-large", Depth: 1, MaxItem: 2})
		}
		checker.Run(t, Case{T: T{K: "string"}, V: V{Len: n}, Class: "grid-large"})
	}
	checker.Run(t, Case{T: T{K: "named1"}, V: V{I: 3, Len: 4, Elems: make([]V, 3)}, Class: "grid", Depth: 2, MaxItem: 3})
	checker.Run(t, Case{T: T{K: "named2"}, V: V{I: 2, Len: 4, Elems: make([]V, 2)}, Class: "grid", Depth: 2, MaxItem: 3})
	vk.MarkExhaustive("every scalar kind and string: alone, in structs, slices (nil/empty/non-empty), arrays, map values, pointers (nil/non-nil), interfaces (nil/non-nil), shared pointers; every key kind")
}

// Package c20 decides property C20: size.Of is the structural sum of a
// value's parts (oracle by construction: the builder that makes the value
// also computes its expected size from a fixed table).
package c20

import (
	"fmt"
	"math"
	"math/bits"
	"reflect"
	"strconv"
	"strings"
	"testing"
	"unsafe"

	"github.com/openacid/low/size"
	"pgregory.net/rapid"

	"verif/harness/gen"
	"verif/harness/vk"
)

func TestMain(m *testing.M) {
	if unsafe.Sizeof(uintptr(0)) != 8 {
		vk.Infra("C20 assumes a 64-bit platform")
	}
	vk.Main(m, "C20")
}

// T describes a type, V a value of that type. Together they are the case.
type T struct {
	K      string `json:"k"`                // scalar kind name | string | array | slice | map | ptr | iface | struct | named1 | named2 | shared
	Elem   *T     `json:"elem,omitempty"`   // array/slice/ptr/map value/shared pointee
	Key    *T     `json:"key,omitempty"`    // map key
	Len    int    `json:"len,omitempty"`    // array length
	Fields []T    `json:"fields,omitempty"` // struct
	NF     int    `json:"nf,omitempty"`     // struct: number of fields when > len(Fields); Fields are then used cyclically
	Name   string `json:"name,omitempty"`   // def: name of the defined type (types_test.go); ifaceM: error | stringer | sizer
}

type V struct {
	Nil   bool   `json:"nil,omitempty"`   // slice/map/ptr/iface
	Len   int    `json:"len,omitempty"`   // string length
	I     int    `json:"i,omitempty"`     // scalar payload / map-key ordinal
	Elems []V    `json:"elems,omitempty"` // array/slice elements, struct fields, ptr pointee (1), map values, iface dynamic value (1), named parts
	Keys  []V    `json:"keys,omitempty"`  // map keys (ordinal in I makes them distinct)
	Dyn   *T     `json:"dyn,omitempty"`   // iface / ifaceM: dynamic type
	X     vk.U64 `json:"x,omitempty"`     // scalar: payload bits (0: the small payload I); map: mask applied to every scalar key leaf
	Rep   int    `json:"rep,omitempty"`   // slice/map/array/struct: element count when > 0; Elems (and Keys) are then templates used cyclically
}

type Case struct {
	T       T      `json:"t"`
	V       V      `json:"v"`
	NilArg  bool   `json:"nil_arg,omitempty"` // size.Of(nil)
	Class   string `json:"class,omitempty"`
	Depth   int    `json:"stat_depth,omitempty"`
	MaxItem int    `json:"stat_max_item,omitempty"`
	Depth0  bool   `json:"stat_depth0,omitempty"` // Stat(v, 0, maxItem): the header line only
	Opt     int    `json:"stat_opt,omitempty"`    // 0: no option argument, 1: Opt{}, 2: Opt{AvgOf}, 3: Opt{AvgOf, AvgUnit: 1/8}, 4: Opt{AvgOf, AvgUnit: 1}
	AvgOf   int    `json:"stat_avg_of,omitempty"`
}

var checker = &vk.Checker[Case]{
	ID: "C20",
	Rule: "random acyclic (type, value) trees built with reflect (StructOf, SliceOf, MapOf, ArrayOf, PtrTo): every scalar kind incl. int, uint, uintptr and complex, half of the payloads full bit patterns (negative, huge, NaN, infinities, -0); strings (empty .. 4200 bytes, log-uniform above 12; ASCII, multi-byte, invalid UTF-8 and NUL content up to the last byte; half of them substrings at odd addresses); arrays (len 0..3, one in three log-uniform up to 96); slices and maps (nil / empty / 1..4 / one in three log-uniform up to the node budget of 3000 (thorough: 12000 for one case in eight), long ones from 1..5 element templates used cyclically so that only some elements are nil / empty / long); " +
		"map keys of every comparable shape: strings, every scalar kind (bool, ints under a random mask, floats, complex), arrays and structs of keys, pointers (one nil), interface{} and method-carrying interfaces holding ten / six comparable dynamic types, defined types - distinct by construction (ordinal in every leaf, checked after building); " +
		"pointers (nil / to a fresh value; a class with two pointers to one pointee); interface{} and error / fmt.Stringer / a local interface as field and element types (nil / holding any generated value resp. one of 8 implementing types incl. typed nil pointers); 32 defined types (every scalar kind, time.Duration, string, slices, map, array, pointer, interface, struct; some with methods); structs with 0..4 fields or (one in three) up to 48 fields, hand-declared named structs with unexported fields, structs with embedded fields (a struct, a nil / non-nil pointer to a struct beside a shadowing field, two levels, an interface, a defined string; every field named, none blank), two different local struct types that print the same type name, and structs whose slices are overlapping views of one backing array; one case in ten a spine of 5..40 (thorough 100) nested pointers / slices / arrays / structs / map values / interfaces; top-level nil. " +
		"Oracle by construction: the builder returns the expected size (widths from a fixed 64-bit table, headers 16/24/8/8/16 once per string/slice/map/pointer/interface node, arrays/structs the plain sum). " +
		"size.Of(v) == expected, no panic, and the size on the first line of Stat(v, depth, maxItem[, Opt]) == expected: depth 0 (header line alone) or positive, maxItem positive, no option / Opt{} / Opt{AvgOf > 0} with AvgUnit 0, 1/8 or 1; the line is accepted when the expected size is the first token after its last ': ' or the last run of decimal digits on it (the layout of the line and the average behind the size are not judged). Grid: every scalar kind alone and inside a struct, slice, array, map value, pointer, interface, each with every Stat argument shape; 16 payload patterns per kind; every key shape; every defined type and interface implementation in every position; sweeps over 2^k-1, 2^k, 2^k+1 and two or three (thorough: six to ten) seed-dependent sizes per octave for slice lengths (to 2^13, thorough 2^17; 12 element types), array lengths (to 1100), field counts (to 300), map sizes (to 2^10, thorough 2^12; 12 key types), string lengths (to 2^14, thorough 2^17) and 5..64 (thorough 200) nesting levels per wrapper kind. Non-trivial: a header-carrying kind nested inside another header-carrying kind. Distinct by hash of the case.",
	Check:    check,
	Classify: classify,
}

var scalarKinds = []string{"bool", "int", "int8", "int16", "int32", "int64", "uint", "uint8", "uint16", "uint32", "uint64", "uintptr", "float32", "float64", "complex64", "complex128"}

var scalarWidth = map[string]int{"bool": 1, "int": 8, "int8": 1, "int16": 2, "int32": 4, "int64": 8, "uint": 8, "uint8": 1, "uint16": 2, "uint32": 4, "uint64": 8, "uintptr": 8, "float32": 4, "float64": 8, "complex64": 8, "complex128": 16}

var scalarType = map[string]reflect.Type{
	"bool": reflect.TypeOf(false), "int": reflect.TypeOf(int(0)), "int8": reflect.TypeOf(int8(0)), "int16": reflect.TypeOf(int16(0)), "int32": reflect.TypeOf(int32(0)), "int64": reflect.TypeOf(int64(0)),
	"uint": reflect.TypeOf(uint(0)), "uint8": reflect.TypeOf(uint8(0)), "uint16": reflect.TypeOf(uint16(0)), "uint32": reflect.TypeOf(uint32(0)), "uint64": reflect.TypeOf(uint64(0)), "uintptr": reflect.TypeOf(uintptr(0)),
	"float32": reflect.TypeOf(float32(0)), "float64": reflect.TypeOf(float64(0)), "complex64": reflect.TypeOf(complex64(0)), "complex128": reflect.TypeOf(complex128(0)),
}

var ifaceType = reflect.TypeOf((*interface{})(nil)).Elem()

// hand-declared named structs with unexported fields
type named1 struct {
	a int32
	b string
	c []uint16
	D *int64
}

type named2 struct {
	x  uint
	y  map[string]uintptr
	in interface{}
	z  [2]bool
}

// Two different struct types whose reflect.Type.String() is the same ("c20.rec"): local types
// declared in two functions. Anything the library keys by the printed type name mixes them up.
func mkRecA(v V) (reflect.Value, int) {
	type rec struct {
		a int8
		b string
		c int64
		d []uint16
	}
	r := rec{a: int8(v.I), b: strings.Repeat("a", max(v.Len, 0)), c: 7}
	if !v.Nil {
		r.d = make([]uint16, len(v.Elems))
	}
	return reflect.ValueOf(r), 1 + 16 + len(r.b) + 8 + 24 + 2*len(r.d)
}

func mkRecB(v V) (reflect.Value, int) {
	type rec struct {
		b string
		d map[string]int32
		a int32
		e *int16
		f bool
	}
	r := rec{b: strings.Repeat("b", max(v.Len, 0)), a: int32(v.I)}
	sum := 16 + len(r.b) + 8 + 4 + 8 + 1
	if !v.Nil {
		r.d = map[string]int32{}
		for i := range v.Elems {
			k := fmt.Sprintf("k%d", i)
			r.d[k] = int32(i)
			sum += 16 + len(k) + 4
		}
	}
	if v.I%2 == 1 {
		x := int16(v.I)
		r.e = &x
		sum += 2
	}
	return reflect.ValueOf(r), sum
}

func isScalar(k string) bool { _, ok := scalarWidth[k]; return ok }

// fieldsOf expands the field list of a struct type (NF fields, the listed ones used cyclically).
func fieldsOf(t T) []T {
	if t.NF <= len(t.Fields) || len(t.Fields) == 0 {
		return t.Fields
	}
	fs := make([]T, t.NF)
	for i := range fs {
		fs[i] = t.Fields[i%len(t.Fields)]
	}
	return fs
}

func goType(t T) reflect.Type {
	switch t.K {
	case "string":
		return reflect.TypeOf("")
	case "array":
		return reflect.ArrayOf(t.Len, goType(*t.Elem))
	case "slice":
		return reflect.SliceOf(goType(*t.Elem))
	case "map":
		return reflect.MapOf(goType(*t.Key), goType(*t.Elem))
	case "ptr":
		return reflect.PtrTo(goType(*t.Elem))
	case "iface":
		return ifaceType
	case "ifaceM":
		return mifaces[t.Name]
	case "def":
		return defs[t.Name].rt
	case "struct":
		tf := fieldsOf(t)
		fs := make([]reflect.StructField, len(tf))
		memo := map[int]reflect.Type{}
		for i, f := range tf {
			j := i
			if len(t.Fields) > 0 {
				j = i % len(t.Fields)
			}
			ft, ok := memo[j]
			if !ok {
				ft = goType(f)
				memo[j] = ft
			}
			fs[i] = reflect.StructField{Name: "F" + strconv.Itoa(i), Type: ft}
		}
		return reflect.StructOf(fs)
	case "overlap":
		et := goType(*t.Elem)
		st := reflect.SliceOf(et)
		return reflect.StructOf([]reflect.StructField{{Name: "All", Type: st}, {Name: "Head", Type: st}, {Name: "None", Type: st}, {Name: "Tail", Type: st}})
	case "recA":
		v, _ := mkRecA(V{})
		return v.Type()
	case "recB":
		v, _ := mkRecB(V{})
		return v.Type()
	case "embV", "embP", "embD", "embI":
		return embType(t.K)
	case "named1":
		return reflect.TypeOf(named1{})
	case "named2":
		return reflect.TypeOf(named2{})
	case "shared":
		pt := reflect.PtrTo(goType(*t.Elem))
		return reflect.StructOf([]reflect.StructField{{Name: "P", Type: pt}, {Name: "Q", Type: pt}})
	}
	return scalarType[t.K]
}

// elemV is the i-th element / field value: the listed ones, used cyclically when Rep says there are more.
func elemV(v V, i int) V {
	if i < len(v.Elems) {
		return v.Elems[i]
	}
	if v.Rep > 0 && len(v.Elems) > 0 {
		return v.Elems[i%len(v.Elems)]
	}
	return V{}
}

func keyV(v V, i int) V {
	if len(v.Keys) == 0 {
		return V{}
	}
	return v.Keys[i%len(v.Keys)]
}

// count is the number of elements of a slice value / entries of a map value.
func count(v V, listed int) int {
	if v.Rep > 0 {
		return v.Rep
	}
	return listed
}

var fillers = []string{"x", "é", "中文", "\U0001F600", "\x00", "\xff\x80", "aé\x00\U0001F601"}

// mkString makes a string of exactly n bytes: an ASCII prefix (three times out of four) followed by a
// filler chosen by k: ASCII, multi-byte UTF-8 sequences (2, 3 and 4 bytes, possibly cut in the middle),
// invalid UTF-8 and NUL bytes - a string's size is its BYTES. Half of them are substrings of a larger
// buffer at an odd address (vk.OddString).
func mkString(prefix string, n, k int) string {
	if k < 0 {
		k = -(k + 1)
	}
	fill := fillers[k%7]
	var b strings.Builder
	b.Grow(n + 8)
	b.WriteString(prefix)
	for b.Len() < n {
		b.WriteString(fill)
	}
	s := b.String()[:max(n, len(prefix))]
	if k%2 == 1 {
		s = vk.OddString(s, uint64(k)*31+uint64(n))
	}
	return s
}

func setScalar(out reflect.Value, k string, v V) {
	x := uint64(v.X)
	if x == 0 {
		switch k {
		case "bool":
			out.SetBool(v.I%2 == 1)
		case "int", "int8", "int16", "int32", "int64":
			out.SetInt(int64(v.I % 100))
		case "uint", "uint8", "uint16", "uint32", "uint64", "uintptr":
			out.SetUint(uint64(v.I % 100))
		case "float32", "float64":
			out.SetFloat(float64(v.I) / 2)
		default:
			out.SetComplex(complex(float64(v.I), 1))
		}
		return
	}
	// payload bits: negative, huge, NaN, infinities, -0 ... (narrow kinds keep the low bits)
	switch k {
	case "bool":
		out.SetBool(x&1 == 1)
	case "int", "int8", "int16", "int32", "int64":
		out.SetInt(int64(x))
	case "uint", "uint8", "uint16", "uint32", "uint64", "uintptr":
		out.SetUint(x)
	case "float64":
		out.SetFloat(math.Float64frombits(x))
	case "float32":
		out.SetFloat(float64(math.Float32frombits(uint32(x >> 32))))
	case "complex128":
		out.SetComplex(complex(math.Float64frombits(x), math.Float64frombits(vk.Mix(x))))
	default:
		out.SetComplex(complex(float64(math.Float32frombits(uint32(x>>32))), float64(math.Float32frombits(uint32(x)))))
	}
}

// build makes the value and computes its expected structural size.
func build(t T, v V) (reflect.Value, int) { return buildRT(t, goType(t), v) }

func buildRT(t T, rt reflect.Type, v V) (reflect.Value, int) {
	out := reflect.New(rt).Elem()
	switch t.K {
	case "string":
		n := max(v.Len, 0)
		p := ""
		if v.I%4 != 0 {
			p = fmt.Sprintf("k%03d", v.I)
			p = p[:min(len(p), n)]
		}
		s := mkString(p, n, v.I)
		out.SetString(s)
		return out, 16 + len(s)
	case "array":
		sum := 0
		et := rt.Elem()
		for i := 0; i < t.Len; i++ {
			e, sz := buildRT(*t.Elem, et, elemV(v, i))
			out.Index(i).Set(e)
			sum += sz
		}
		return out, sum
	case "slice":
		if v.Nil {
			return out, 24
		}
		n := count(v, len(v.Elems))
		sl := reflect.MakeSlice(rt, n, n+v.I%3)
		sum := 24
		et := rt.Elem()
		for i := 0; i < n; i++ {
			e, sz := buildRT(*t.Elem, et, elemV(v, i))
			sl.Index(i).Set(e)
			sum += sz
		}
		out.Set(sl)
		return out, sum
	case "map":
		if v.Nil {
			return out, 8
		}
		m := reflect.MakeMap(rt)
		sum := 8
		n := count(v, len(v.Keys))
		kt, et := rt.Key(), rt.Elem()
		for i := 0; i < n; i++ {
			k, ksz := buildKey(*t.Key, kt, keyV(v, i), i, uint64(v.X)) // ordinal i: keys are distinct by construction
			e, esz := buildRT(*t.Elem, et, elemV(v, i))
			m.SetMapIndex(k, e)
			sum += ksz + esz
		}
		if m.Len() != n {
			panic(fmt.Sprintf("c20 harness: %d map keys of type %s are not distinct (%d entries)", n, kt, m.Len()))
		}
		out.Set(m)
		return out, sum
	case "ptr":
		if v.Nil {
			return out, 8
		}
		e, sz := buildRT(*t.Elem, rt.Elem(), elemV(v, 0))
		p := reflect.New(e.Type())
		p.Elem().Set(e)
		out.Set(p)
		return out, 8 + sz
	case "iface":
		if v.Nil || v.Dyn == nil {
			return out, 16
		}
		e, sz := build(*v.Dyn, elemV(v, 0))
		if e.Kind() == reflect.Interface { // an interface holds a concrete value, never an interface
			return out, 16
		}
		out.Set(e)
		return out, 16 + sz
	case "ifaceM":
		if v.Nil || v.Dyn == nil {
			return out, 16
		}
		dt := goType(*v.Dyn)
		if dt.Kind() == reflect.Interface || !dt.Implements(rt) {
			return out, 16
		}
		e, sz := buildRT(*v.Dyn, dt, elemV(v, 0))
		out.Set(e)
		return out, 16 + sz
	case "def":
		d := defs[t.Name]
		e, sz := buildRT(d.under, d.urt, v)
		return e.Convert(rt), sz
	case "struct":
		sum := 0
		for i, f := range fieldsOf(t) {
			e, sz := buildRT(f, rt.Field(i).Type, elemV(v, i))
			out.Field(i).Set(e)
			sum += sz
		}
		return out, sum
	case "overlap":
		// four views of one backing array: all of it, a prefix (same start address, shorter), the empty
		// prefix, and a suffix; the structural sum counts the elements of every view
		n := max(v.Len, 1)
		k := v.I % (n + 1)
		all := reflect.MakeSlice(reflect.SliceOf(goType(*t.Elem)), n, n)
		esz := 0
		for i := 0; i < n; i++ {
			e, sz := build(*t.Elem, V{I: i})
			all.Index(i).Set(e)
			esz = sz
		}
		out.Field(0).Set(all)
		out.Field(1).Set(all.Slice(0, k))
		out.Field(2).Set(all.Slice(0, 0))
		out.Field(3).Set(all.Slice(k, n))
		return out, 4*24 + esz*(n+k+0+(n-k))
	case "recA":
		return mkRecA(v)
	case "recB":
		return mkRecB(v)
	case "embV", "embP", "embD", "embI":
		return mkEmb(t.K, v)
	case "named1":
		n := named1{a: int32(v.I), b: strings.Repeat("b", max(v.Len, 0))}
		sum := 4 + 16 + len(n.b)
		if !v.Nil {
			n.c = make([]uint16, len(v.Elems))
		}
		sum += 24 + 2*len(n.c)
		sum += 8
		if v.I%2 == 1 {
			x := int64(v.I)
			n.D = &x
			sum += 8
		}
		return reflect.ValueOf(n), sum
	case "named2":
		n := named2{x: uint(v.I)}
		sum := 8
		sum += 8
		if !v.Nil {
			n.y = map[string]uintptr{}
			for i := range v.Elems {
				k := fmt.Sprintf("key%d", i)
				n.y[k] = uintptr(i)
				sum += 16 + len(k) + 8
			}
		}
		sum += 16
		if v.Len > 0 {
			n.in = strings.Repeat("s", v.Len)
			sum += 16 + v.Len
		}
		sum += 2
		return reflect.ValueOf(n), sum
	case "shared":
		if v.Nil {
			return out, 16
		}
		e, sz := build(*t.Elem, elemV(v, 0))
		p := reflect.New(e.Type())
		p.Elem().Set(e)
		out.Field(0).Set(p)
		out.Field(1).Set(p)
		return out, 2 * (8 + sz) // the structural definition counts the pointee once per pointer
	}
	setScalar(out, t.K, v)
	return out, scalarWidth[t.K]
}

// buildKey builds the i-th key of a map. Every scalar and string leaf of the key carries the ordinal i
// (scalars: i changed by one mask that is the same for all keys of the map, so negative, huge and
// fractional keys occur and stay distinct; strings: the prefix "k<i>" followed by a filler that never
// starts with a digit); pointers are fresh, hence distinct; an interface holds a comparable type chosen
// by the ordinal. keyCap says how many ordinals a key type can tell apart; generators stay below it and
// build panics (harness error, not a verdict) if two keys collide all the same.
func buildKey(t T, rt reflect.Type, v V, i int, mask uint64) (reflect.Value, int) {
	out := reflect.New(rt).Elem()
	switch t.K {
	case "string":
		s := mkString("k"+strconv.Itoa(i), max(v.Len, 0), v.I)
		out.SetString(s)
		return out, 16 + len(s)
	case "array":
		sum := 0
		for j := 0; j < t.Len; j++ {
			e, sz := buildKey(*t.Elem, rt.Elem(), elemV(v, j), i, mask)
			out.Index(j).Set(e)
			sum += sz
		}
		return out, sum
	case "struct":
		sum := 0
		for j, f := range fieldsOf(t) {
			e, sz := buildKey(f, rt.Field(j).Type, elemV(v, j), i, mask)
			out.Field(j).Set(e)
			sum += sz
		}
		return out, sum
	case "ptr":
		if v.Nil && i == 0 {
			return out, 8
		}
		e, sz := buildRT(*t.Elem, rt.Elem(), elemV(v, 0))
		p := reflect.New(rt.Elem())
		p.Elem().Set(e)
		out.Set(p)
		return out, 8 + sz
	case "iface":
		d := keyDyns[(i+max(v.I, 0))%len(keyDyns)]
		e, sz := buildKey(d, goType(d), V{I: v.I, Len: v.Len}, i, mask)
		out.Set(e)
		return out, 16 + sz
	case "ifaceM":
		d := implTs[(i+max(v.I, 0))%nCmpImpls]
		e, sz := buildKey(d, goType(d), V{I: v.I, Len: v.Len, Elems: []V{{I: v.I, Len: v.Len}}}, i, mask)
		out.Set(e)
		return out, 16 + sz
	case "def":
		d := defs[t.Name]
		e, sz := buildKey(d.under, d.urt, v, i, mask)
		return e.Convert(rt), sz
	case "embV", "embP":
		return mkEmb(t.K, V{I: i, Len: v.Len}) // the ordinal is in the (promoted resp. shadowing) field A
	}
	f := float64(i + 1)
	switch mask % 4 {
	case 1:
		f = -f
	case 2:
		f /= 2
	case 3:
		f *= 1 << 40
	}
	switch t.K {
	case "bool":
		out.SetBool(i%2 == 1)
	case "int", "int8", "int16", "int32", "int64":
		out.SetInt(int64(uint64(i) ^ mask))
	case "uint", "uint8", "uint16", "uint32", "uint64", "uintptr":
		out.SetUint(uint64(i) ^ mask)
	case "float32", "float64":
		if (mask>>2)&1 == 1 && i%3 == 0 {
			f = math.NaN() // a NaN key equals no key (not even itself): always a distinct entry, found by iteration only
		}
		out.SetFloat(f)
	case "complex64", "complex128":
		if (mask>>2)&1 == 1 && i%3 == 0 {
			out.SetComplex(complex(math.NaN(), -f))
			break
		}
		out.SetComplex(complex(f, -f))
	default:
		panic("c20 harness: not a key kind: " + t.K)
	}
	return out, scalarWidth[t.K]
}

// keyCap is the number of distinct keys buildKey can make of a key type.
func keyCap(t T) int {
	switch t.K {
	case "bool":
		return 2
	case "int8", "uint8", "embP": // (embP: the ordinal is in its int8 field)
		return 200
	case "int16", "uint16":
		return 60000
	case "float32", "complex64":
		return 1 << 20
	case "array":
		if t.Len == 0 {
			return 1
		}
		return keyCap(*t.Elem)
	case "struct":
		c := 1
		for _, f := range t.Fields {
			c = max(c, keyCap(f))
		}
		return c
	case "def":
		return keyCap(defs[t.Name].under)
	case "ptr":
		if goType(*t.Elem).Size() == 0 {
			return 1 // pointers to zero-size values (*struct{}, *[0]T) may all be equal
		}
	}
	return 1 << 30
}

func statOpts(c Case) []interface{} {
	n := max(c.AvgOf, 1)
	switch c.Opt {
	case 1:
		return []interface{}{size.Opt{}}
	case 2:
		return []interface{}{size.Opt{AvgOf: n}}
	case 3:
		return []interface{}{size.Opt{AvgOf: n, AvgUnit: 1.0 / 8}}
	case 4:
		return []interface{}{size.Opt{AvgOf: n, AvgUnit: 1}}
	}
	return nil
}

func check(c Case) *vk.Failure {
	if c.NilArg {
		var got int
		if f := vk.Try("size.Of(nil)", func() { got = size.Of(nil) }); f != nil {
			return f
		}
		if got != 0 {
			return vk.Failf("of-nil", "size.Of(nil) = %d, want 0", got)
		}
		return nil
	}
	val, want := build(c.T, c.V)
	arg := val.Interface()
	typ := val.Type().String()
	if len(typ) > 300 {
		typ = typ[:300] + "..."
	}
	vs := fmt.Sprintf("%+v", c.V)
	if len(vs) > 1500 {
		vs = vs[:1500] + "..."
	}
	var got int
	if f := vk.Try(fmt.Sprintf("size.Of(value of type %s)", typ), func() { got = size.Of(arg) }); f != nil {
		f.Kind = "of-panic"
		return f
	}
	if got != want {
		return vk.Failf("of", "size.Of(%s value %s) = %d, want %d", typ, vs, got, want)
	}
	var st string
	// depth: positive, or 0 (the library documents it in code: the header line alone); maxItem positive
	// (what callers pass; negative bounds are undefined). The option argument changes what follows the
	// number on the first line (an average), not the number.
	depth, maxItem := max(c.Depth, 1), max(c.MaxItem, 1)
	if c.Depth0 {
		depth = 0
	}
	opts := statOpts(c)
	if f := vk.Try(fmt.Sprintf("size.Stat(value of type %s, %d, %d, %+v)", typ, depth, maxItem, opts), func() { st = size.Stat(arg, depth, maxItem, opts...) }); f != nil {
		f.Kind = "stat-panic"
		return f
	}
	first := strings.SplitN(st, "\n", 2)[0]
	// The statement fixes the number, not the layout of the line: the line is accepted when the expected
	// size is the number after its last ": " (today's "<type>: <size>[ /n = <average>]") OR the last run
	// of decimal digits on the line (e.g. "<type>: <size> bytes", "<type> = <size>").
	after, okA := numAfterColon(first)
	last, okL := lastDigitRun(first)
	if (okA && after == want) || (okL && last == want) {
		return nil
	}
	if !okA && !okL {
		return vk.Failf("stat-format", "first line of Stat(depth %d, maxItem %d, opts %+v) carries no number: %q", depth, maxItem, opts, first)
	}
	n := after
	if !okA {
		n = last
	}
	return vk.Failf("stat", "first line of Stat(%s value, %d, %d, %+v) reports %d, want %d (line %q)", typ, depth, maxItem, opts, n, want, first)
}

// numAfterColon reads the first blank-separated token after the last ": " of the line as a decimal number.
func numAfterColon(line string) (int, bool) {
	k := strings.LastIndex(line, ": ")
	if k < 0 {
		return 0, false
	}
	f := strings.Fields(line[k+2:])
	if len(f) == 0 {
		return 0, false
	}
	n, err := strconv.Atoi(f[0])
	return n, err == nil
}

// lastDigitRun reads the last maximal run of decimal digits of the line.
func lastDigitRun(line string) (int, bool) {
	e := len(line)
	for e > 0 && (line[e-1] < '0' || line[e-1] > '9') {
		e--
	}
	b := e
	for b > 0 && line[b-1] >= '0' && line[b-1] <= '9' {
		b--
	}
	if b == e {
		return 0, false
	}
	n, err := strconv.Atoi(line[b:e])
	return n, err == nil
}

func header(t T) bool {
	switch t.K {
	case "string", "slice", "map", "ptr", "iface", "ifaceM", "named1", "named2", "shared", "recA", "recB", "overlap", "embV", "embP", "embD", "embI":
		return true
	case "def":
		return header(defs[t.Name].under)
	}
	return false
}

// info is what classify learns from one walk over the case (templates only: cost is bounded by the
// encoded size of the case, not by the size of the value).
type info struct {
	seen                                            map[string]bool
	nested                                          bool // a header-carrying node sits inside another (non-nil, non-empty) one
	slice, mapN, array, fields, str, depth, payload int
	mixed                                           bool
}

func (in *info) walk(t T, v V, inside bool, d int) {
	in.seen[t.K] = true
	in.depth = max(in.depth, d)
	if header(t) && inside {
		in.nested = true
	}
	switch t.K {
	case "string":
		in.str = max(in.str, v.Len)
	case "array":
		in.array = max(in.array, t.Len)
		for i := 0; i < min(t.Len, max(len(v.Elems), 1)); i++ {
			in.walk(*t.Elem, elemV(v, i), inside, d+1)
		}
	case "struct":
		fs := fieldsOf(t)
		in.fields = max(in.fields, len(fs))
		for i := 0; i < min(len(fs), max(len(t.Fields), len(v.Elems))); i++ {
			in.walk(fs[i], elemV(v, i), inside, d+1)
		}
	case "slice":
		if v.Nil {
			return
		}
		n := count(v, len(v.Elems))
		in.slice = max(in.slice, n)
		if n > len(v.Elems) && len(v.Elems) > 1 {
			in.mixed = true
		}
		for i := 0; i < min(n, len(v.Elems)); i++ {
			in.walk(*t.Elem, v.Elems[i], true, d+1)
		}
	case "ptr", "shared":
		if v.Nil {
			return
		}
		in.walk(*t.Elem, elemV(v, 0), true, d+1)
	case "map":
		in.seen["key:"+t.Key.K] = true
		if v.Nil {
			return
		}
		n := count(v, len(v.Keys))
		in.mapN = max(in.mapN, n)
		if n > 0 && header(*t.Key) {
			in.nested = true
		}
		for i := 0; i < min(n, max(len(v.Elems), 1)); i++ {
			in.walk(*t.Elem, elemV(v, i), true, d+1)
		}
	case "iface", "ifaceM":
		if v.Dyn != nil && !v.Nil {
			in.walk(*v.Dyn, elemV(v, 0), true, d+1)
		}
	case "def":
		in.seen["def:"+defs[t.Name].under.K] = true
		in.walk(defs[t.Name].under, v, inside, d)
	case "named1", "named2", "recA", "recB", "overlap":
		in.nested = true
	case "embV", "embP", "embD", "embI":
		in.nested = true
		in.seen["embedded"] = true
	default:
		if v.X != 0 {
			in.payload++
		}
	}
}

func sizeClass(what string, n int) string {
	switch {
	case n <= 4:
		return ""
	case n <= 16:
		return what + ":5..16"
	case n <= 128:
		return what + ":17..128"
	case n <= 1024:
		return what + ":129..1024"
	case n <= 8192:
		return what + ":1025..8192"
	}
	return what + ":>8192"
}

func classify(c Case) (bool, []string) {
	if c.NilArg {
		return false, []string{"nil-argument"}
	}
	in := &info{seen: map[string]bool{}}
	in.walk(c.T, c.V, false, 1)
	labels := []string{"top:" + c.T.K}
	for _, k := range []string{"uint", "uintptr", "int", "map", "iface", "ifaceM", "def", "ptr", "slice", "string", "array", "struct", "complex64", "complex128", "named1", "named2", "shared", "recA", "recB", "overlap", "embedded",
		"key:ptr", "key:float32", "key:float64", "key:complex64", "key:complex128", "key:iface", "key:ifaceM", "key:def", "key:array", "key:struct", "key:string", "key:bool",
		"def:string", "def:slice", "def:map", "def:ptr", "def:array", "def:struct", "def:iface", "def:int64", "def:int8", "def:int16", "def:int32"} {
		if in.seen[k] {
			labels = append(labels, "has:"+k)
		}
	}
	for _, l := range []string{sizeClass("slice-len", in.slice), sizeClass("map-len", in.mapN), sizeClass("array-len", in.array), sizeClass("struct-fields", in.fields), sizeClass("levels", in.depth)} {
		if l != "" {
			labels = append(labels, l)
		}
	}
	if in.str > 12 {
		labels = append(labels, sizeClass("string-len", in.str))
	}
	if in.mixed {
		labels = append(labels, "element-mix(templates)")
	}
	if in.payload > 0 {
		labels = append(labels, "scalar-payload:wide")
	}
	if c.Depth0 {
		labels = append(labels, "stat:depth0")
	}
	if c.Opt > 0 {
		labels = append(labels, "stat:opt"+strconv.Itoa(c.Opt))
	}
	if c.Class != "" {
		labels = append(labels, "class:"+c.Class)
	}
	return in.nested, labels
}

// ---------------------------------------------------------------- generator

// Budgets: the number of nodes (elements, bytes of strings) one case may have, and the number of
// elements the zero value of one generated TYPE may have (array lengths and field counts multiply).
const nodeBudget, bigNodeBudget = 3000, 12000 // (the big one: one case in eight of the thorough tier)

const typeBudget = 256

// logUniform draws from [lo,hi]: the octave uniformly, then 2^k-1, 2^k, 2^k+1 or anything in the octave.
func logUniform(t *rapid.T, lo, hi int, label string) int {
	if hi <= lo {
		return max(min(lo, hi), 0)
	}
	kl, kh := bits.Len(uint(lo))-1, bits.Len(uint(hi))-1
	k := kl + gen.Uniform(t, kh-kl+1, label+".octave")
	base := 1 << uint(k)
	n := base
	switch gen.Uniform(t, 6, label+".at") {
	case 0:
		n = base - 1
	case 1:
	case 2:
		n = base + 1
	default:
		n = base + gen.Uniform(t, base, label+".in")
	}
	return min(max(n, lo), hi)
}

// minCost is the number of nodes of the zero value of a type.
func minCost(t T) int {
	switch t.K {
	case "array":
		return max(1, t.Len*minCost(*t.Elem))
	case "struct":
		c := 0
		for _, f := range fieldsOf(t) {
			c += minCost(f)
		}
		return max(c, 1)
	case "def":
		return minCost(defs[t.Name].under)
	}
	return 1
}

func genLeaf(t *rapid.T) T {
	switch gen.Uniform(t, 10, "leafkind") {
	case 0, 1:
		return T{K: "string"}
	case 2:
		return T{K: "def", Name: defNames[gen.Uniform(t, len(defNames), "def")]}
	}
	return T{K: scalarKinds[gen.Uniform(t, len(scalarKinds), "scalar")]}
}

func genType(t *rapid.T, depth int, allowIface bool, tb int) T {
	if depth <= 0 || (depth < 4 && gen.Chance(t, 1, 3, "leaf")) || (depth >= 4 && gen.Chance(t, 1, 12, "leaf")) {
		l := genLeaf(t)
		if !allowIface && l.K == "def" && l.Name == "dAny" {
			l = T{K: "def", Name: "dString"}
		}
		return l
	}
	switch gen.Uniform(t, 12, "composite") {
	case 0:
		n := gen.Uniform(t, 4, "alen")
		if tb >= 8 && gen.Chance(t, 1, 3, "along") {
			n = logUniform(t, 4, min(tb, 96), "alonglen")
		}
		e := genType(t, depth-1, true, tb/max(n, 1))
		return T{K: "array", Elem: &e, Len: n}
	case 1, 2:
		e := genType(t, depth-1, true, tb)
		return T{K: "slice", Elem: &e}
	case 3:
		e := genType(t, depth-1, true, tb)
		k := genKeyType(t, 2)
		return T{K: "map", Key: &k, Elem: &e}
	case 4:
		e := genType(t, depth-1, true, tb)
		return T{K: "ptr", Elem: &e}
	case 5:
		if allowIface {
			return T{K: "iface"}
		}
		return T{K: "string"}
	case 6:
		return T{K: []string{"named1", "named2", "recA", "recB", "embV", "embP", "embD", "embI"}[gen.Uniform(t, 8, "named")]}
	case 7:
		if gen.Chance(t, 1, 2, "overlap") {
			e := T{K: scalarKinds[gen.Uniform(t, len(scalarKinds), "oscalar")]}
			return T{K: "overlap", Elem: &e}
		}
		e := genType(t, depth-1, true, tb)
		return T{K: "shared", Elem: &e}
	case 8:
		if allowIface {
			return T{K: "ifaceM", Name: mifaceNames[gen.Uniform(t, len(mifaceNames), "miface")]}
		}
		return T{K: "def", Name: "dStrs"}
	case 9:
		n := defNames[gen.Uniform(t, len(defNames), "def")]
		if !allowIface && n == "dAny" {
			n = "dBytes"
		}
		return T{K: "def", Name: n}
	default:
		n := gen.Uniform(t, 5, "nfields")
		if tb >= 8 && gen.Chance(t, 1, 3, "wide") {
			// many fields: a few field types used cyclically
			n = logUniform(t, 5, min(tb, 48), "nwide")
			k := 1 + gen.Uniform(t, 4, "ntempl")
			fs := make([]T, k)
			for i := range fs {
				fs[i] = genType(t, depth-1, true, tb/n)
			}
			return T{K: "struct", Fields: fs, NF: n}
		}
		fs := make([]T, n)
		for i := range fs {
			fs[i] = genType(t, depth-1, true, tb/max(n, 1))
		}
		return T{K: "struct", Fields: fs}
	}
}

var keyEmb = []string{"embV", "embP"}

var keyScalars = []string{"int", "int8", "int16", "int32", "int64", "uint", "uint8", "uint16", "uint32", "uint64", "uintptr", "float32", "float64", "complex64", "complex128"}

// genKeyType draws a comparable type: strings, every scalar kind, arrays and structs of key types,
// pointers to anything, interface{} and method-carrying interfaces, defined types.
func genKeyType(t *rapid.T, depth int) T {
	c := gen.Uniform(t, 14, "keytype")
	if depth <= 0 && (c == 3 || c == 4) {
		c = 0
	}
	switch c {
	case 0, 1, 2:
		return T{K: "string"}
	case 3:
		e := genKeyType(t, depth-1)
		return T{K: "array", Elem: &e, Len: gen.Uniform(t, 4, "kalen")}
	case 4:
		fs := make([]T, gen.Uniform(t, 4, "knf"))
		for i := range fs {
			fs[i] = genKeyType(t, depth-1)
		}
		return T{K: "struct", Fields: fs}
	case 5:
		return T{K: "iface"}
	case 6:
		return T{K: "ifaceM", Name: mifaceNames[gen.Uniform(t, len(mifaceNames), "kmiface")]}
	case 7:
		e := genType(t, 1, true, 4)
		return T{K: "ptr", Elem: &e}
	case 8:
		return T{K: "def", Name: defKeyNames[gen.Uniform(t, len(defKeyNames), "kdef")]}
	case 9:
		return T{K: "bool"}
	case 10:
		return T{K: keyEmb[gen.Uniform(t, 2, "kemb")]}
	}
	return T{K: keyScalars[gen.Uniform(t, len(keyScalars), "kscalar")]}
}

// genKeyValue draws the template of a key (the ordinal and the map's mask are added by buildKey).
func genKeyValue(t *rapid.T, kt T) V {
	v := V{I: gen.Uniform(t, 50, "ki"), Len: gen.Uniform(t, 8, "klen")}
	if gen.Chance(t, 1, 8, "klong") {
		v.Len = logUniform(t, 8, 300, "klonglen")
	}
	switch kt.K {
	case "array":
		for i := 0; i < kt.Len; i++ {
			v.Elems = append(v.Elems, genKeyValue(t, *kt.Elem))
		}
	case "struct":
		for _, f := range kt.Fields {
			v.Elems = append(v.Elems, genKeyValue(t, f))
		}
	case "ptr":
		v.Nil = gen.Chance(t, 1, 3, "knil")
		v.Elems = []V{genValue(t, *kt.Elem, 1, 8)}
	case "def":
		return genKeyValue(t, defs[kt.Name].under)
	}
	return v
}

var payloads = []uint64{1 << 63, ^uint64(0), 1<<63 - 1, 1001, 1 << 31, 1 << 32, 0x7ff0000000000000, 0xfff0000000000000, 0x7ff8000000000001, 0xffffffff, 0x80, 0x8000, 0xff, 0xffffffff80000000, 0x7f8000007f800000, 0x8000000080000000}

// genCount draws the element count of a non-empty container: 1..4, or (one time out of three) a
// log-uniform count up to what the budget affords.
func genCount(t *rapid.T, hi int) int {
	if hi > 4 && gen.Chance(t, 1, 3, "long") {
		return logUniform(t, 5, hi, "nlong")
	}
	return min(1+gen.Uniform(t, 4, "n"), max(hi, 1))
}

func genValue(t *rapid.T, ty T, depth int, budget int) V {
	v := V{I: gen.Uniform(t, 50, "i")}
	budget = max(budget, 1)
	switch ty.K {
	case "string":
		v.Len = gen.Len(t, 12, "slen")
		if budget > 12 && gen.Chance(t, 1, 4, "slong") {
			v.Len = logUniform(t, 13, min(budget, 4200), "slonglen")
		}
	case "array":
		k := ty.Len
		if k > 4 {
			k = 1 + gen.Uniform(t, 5, "ntempl")
			v.Rep = ty.Len
		}
		for i := 0; i < k; i++ {
			v.Elems = append(v.Elems, genValue(t, *ty.Elem, depth-1, budget/max(ty.Len, 1)))
		}
	case "slice":
		switch gen.Uniform(t, 4, "state") {
		case 0:
			v.Nil = true
		case 1:
		default:
			n := genCount(t, budget/minCost(*ty.Elem))
			k := n
			if n > 4 {
				k = 1 + gen.Uniform(t, 5, "ntempl")
				v.Rep = n
			}
			if n > 4 && gen.Chance(t, 1, 3, "sparse") {
				// a sparse slice: one live element per period of 2..12, all the others nil / empty (a walk that
				// tests blocks of elements for "all nil" before descending)
				k = 2 + gen.Uniform(t, 11, "period")
				hot := gen.Uniform(t, k, "hot")
				for i := 0; i < k; i++ {
					if i == hot {
						v.Elems = append(v.Elems, genValue(t, *ty.Elem, depth-1, budget/n))
					} else {
						v.Elems = append(v.Elems, V{Nil: true})
					}
				}
				break
			}
			for i := 0; i < k; i++ {
				v.Elems = append(v.Elems, genValue(t, *ty.Elem, depth-1, budget/n))
			}
		}
	case "map":
		switch gen.Uniform(t, 4, "state") {
		case 0:
			v.Nil = true
		case 1:
		default:
			n := genCount(t, min(keyCap(*ty.Key), budget/(1+minCost(*ty.Elem))))
			k := n
			if n > 4 {
				k = 1 + gen.Uniform(t, 5, "ntempl")
				v.Rep = n
			}
			if gen.Chance(t, 1, 2, "kmask") {
				v.X = vk.U64(gen.U64(t, "mask"))
			}
			for i := 0; i < k; i++ {
				v.Keys = append(v.Keys, genKeyValue(t, *ty.Key))
				v.Elems = append(v.Elems, genValue(t, *ty.Elem, depth-1, budget/n))
			}
		}
	case "ptr", "shared":
		if gen.Chance(t, 1, 4, "nil") {
			v.Nil = true
		} else {
			v.Elems = []V{genValue(t, *ty.Elem, depth-1, budget/2)}
		}
	case "iface":
		if gen.Chance(t, 1, 4, "nil") || depth <= 0 {
			v.Nil = true
		} else {
			d := genType(t, depth-1, false, min(budget, 64))
			v.Dyn = &d
			v.Elems = []V{genValue(t, d, depth-1, budget)}
		}
	case "ifaceM":
		if gen.Chance(t, 1, 4, "nil") {
			v.Nil = true
		} else {
			d := implTs[gen.Uniform(t, len(implTs), "impl")]
			v.Dyn = &d
			v.Elems = []V{genValue(t, d, depth-1, budget)}
		}
	case "def":
		return genValue(t, defs[ty.Name].under, depth, budget)
	case "struct":
		nf := len(fieldsOf(ty))
		for _, f := range ty.Fields {
			v.Elems = append(v.Elems, genValue(t, f, depth-1, budget/max(nf, 1)))
		}
		if nf > len(ty.Fields) {
			v.Rep = nf
		}
	case "overlap":
		v.Len = 1 + gen.Uniform(t, 9, "n")
		if budget > 64 && gen.Chance(t, 1, 6, "olong") {
			v.Len = logUniform(t, 10, min(budget/3, 600), "olonglen")
		}
		v.I = gen.Uniform(t, v.Len+3, "k")
	case "named1", "named2", "recA", "recB", "embV", "embP", "embD", "embI":
		v.Len = gen.Uniform(t, 6, "len")
		v.Nil = gen.Chance(t, 1, 3, "nil")
		n := gen.Uniform(t, 4, "n")
		if budget > 16 && gen.Chance(t, 1, 6, "nlong") {
			n = logUniform(t, 4, min(budget/2, 300), "nlonglen")
			v.Len = logUniform(t, 4, min(budget/2, 300), "lenlong")
		}
		v.Elems = make([]V, n)
	default:
		// scalars: the small payload I, or (half of the time) a bit pattern: negative, huge, NaN, infinities, -0
		if gen.Chance(t, 1, 2, "wide") {
			if gen.Chance(t, 1, 2, "palette") {
				v.X = vk.U64(payloads[gen.Uniform(t, len(payloads), "payload")])
			} else {
				v.X = vk.U64(gen.U64(t, "bits"))
			}
		}
	}
	return v
}

// genDeep draws a value nested 5..40 (thorough: 100) levels deep: a spine of pointers, slices, arrays,
// structs, map values and interfaces in random order around a small value, with shallow siblings.
// Three levels out of four are containers of interface{} (the TYPE stays flat, only the value is deep:
// reflect keeps every constructed type for ever); at most 12 levels nest the types themselves.
func genDeep(t *rapid.T) (T, V) {
	d := logUniform(t, 5, vk.Pick(40, 100), "levels")
	cur := genType(t, 1, false, 8)
	cv := genValue(t, cur, 1, 16)
	typed, shared := 0, 0
	for j := 0; j < d; j++ {
		w := gen.Uniform(t, 6, "wrap")
		inner, iv := cur, cv
		if inner.K != "iface" && (typed >= 12 || gen.Chance(t, 3, 4, "flat")) {
			// a container of interface{} holding the spine
			hold := V{Dyn: &inner, Elems: []V{iv}}
			switch w {
			case 0:
				cur, cv = T{K: "ptr", Elem: tp("iface")}, V{Elems: []V{hold}}
			case 1:
				es := make([]V, 1+gen.Uniform(t, 3, "n"))
				for i := range es {
					es[i] = V{Nil: true}
				}
				es[gen.Uniform(t, len(es), "at")] = hold
				cur, cv = T{K: "slice", Elem: tp("iface")}, V{Elems: es}
			case 2:
				es := []V{{Nil: true}, {Nil: true}}
				es[gen.Uniform(t, 2, "at")] = hold
				cur, cv = T{K: "array", Elem: tp("iface"), Len: 2}, V{Elems: es}
			case 3:
				cur, cv = T{K: "struct", Fields: []T{{K: "int8"}, {K: "iface"}, {K: "string"}}}, V{Elems: []V{{I: 1}, hold, {Len: gen.Uniform(t, 9, "slen"), I: 2}}}
			case 4:
				cur, cv = T{K: "map", Key: tp("string"), Elem: tp("iface")}, V{Keys: []V{{Len: 2}, {Len: 5, I: 3}}, Elems: []V{hold, {Nil: true}}}
			default:
				cur, cv = T{K: "ptr", Elem: tp("iface")}, V{Elems: []V{hold}}
				if shared < 3 { // (two pointers to one pointee: the levels below count twice)
					shared++
					cur, cv = T{K: "shared", Elem: tp("iface")}, V{Elems: []V{hold}}
				}
			}
			continue
		}
		typed++
		if w == 5 && (inner.K == "iface" || j == d-1) {
			w = 0
		}
		switch w {
		case 0:
			cur, cv = T{K: "ptr", Elem: &inner}, V{Elems: []V{iv}}
		case 1:
			n := 1 + gen.Uniform(t, 3, "n")
			at := gen.Uniform(t, n, "at")
			es := make([]V, n)
			for i := range es {
				es[i] = V{Nil: true}
			}
			es[at] = iv
			cur, cv = T{K: "slice", Elem: &inner}, V{Elems: es}
		case 2:
			cur, cv = T{K: "array", Elem: &inner, Len: 1}, V{Elems: []V{iv}}
		case 3:
			n := 1 + gen.Uniform(t, 3, "nf")
			at := gen.Uniform(t, n, "at")
			fs, es := make([]T, n), make([]V, n)
			for i := range fs {
				fs[i] = genLeaf(t)
				if fs[i].K == "def" {
					fs[i] = T{K: "string"}
				}
				es[i] = genValue(t, fs[i], 0, 8)
			}
			fs[at], es[at] = inner, iv
			cur, cv = T{K: "struct", Fields: fs}, V{Elems: es}
		case 4:
			kt := genKeyType(t, 0)
			n := min(1+gen.Uniform(t, 2, "n"), keyCap(kt))
			m := V{}
			for i := 0; i < n; i++ {
				m.Keys = append(m.Keys, genKeyValue(t, kt))
				m.Elems = append(m.Elems, V{Nil: true})
			}
			m.Elems[gen.Uniform(t, n, "at")] = iv
			cur, cv = T{K: "map", Key: &kt, Elem: &inner}, m
		default:
			cur, cv = T{K: "iface"}, V{Dyn: &inner, Elems: []V{iv}}
		}
	}
	if cur.K == "iface" {
		in := cur
		cur, cv = T{K: "ptr", Elem: &in}, V{Elems: []V{cv}}
	}
	return cur, cv
}

func genCase(t *rapid.T) Case {
	if gen.Chance(t, 1, 200, "nilarg") {
		return Case{NilArg: true}
	}
	var c Case
	if gen.Chance(t, 1, 10, "deep") {
		c.T, c.V = genDeep(t)
		c.Class = "deep"
	} else {
		c.T = genType(t, 4, false, typeBudget)
		b := nodeBudget
		if vk.Thorough() && gen.Chance(t, 1, 8, "bigbudget") {
			b = bigNodeBudget
		}
		c.V = genValue(t, c.T, 4, b)
	}
	// depth 0 is the header line alone; other callers pass positive bounds (negative ones are undefined)
	c.Depth = []int{1, 2, 3, 10, 100, 1 << 20}[gen.Uniform(t, 6, "depth")]
	c.MaxItem = []int{1, 2, 3, 100, 1 << 20}[gen.Uniform(t, 5, "maxitem")]
	c.Depth0 = gen.Chance(t, 1, 6, "depth0")
	if gen.Chance(t, 1, 3, "opt") {
		c.Opt = 1 + gen.Uniform(t, 4, "optkind")
		c.AvgOf = []int{1, 2, 3, 7, 1000, 1 << 40}[gen.Uniform(t, 6, "avgof")]
	}
	return c
}

func TestRegress(t *testing.T) { checker.Regress(t) }

func TestProp(t *testing.T) { checker.Prop(t, genCase) }

// FuzzProp: the same generator driven by the native coverage-guided fuzzer (thorough tier only).
func FuzzProp(f *testing.F) { checker.Fuzz(f, genCase) }

// sweepSizes: 2^k-1, 2^k, 2^k+1 and r more sizes inside every octave [2^k, 2^(k+1)), klo <= k <= khi
// (the r sizes depend on the seed of the run; the case carries the size).
func sweepSizes(klo, khi, r int, salt uint64) []int {
	var out []int
	for k := klo; k <= khi; k++ {
		b := 1 << uint(k)
		out = append(out, b-1, b, b+1)
		for j := 0; j < r; j++ {
			out = append(out, b+2+int(vk.Mix(vk.Seed()*1000003+salt*977+uint64(k)*31+uint64(j))%uint64(b-2)))
		}
	}
	return out
}

// statVariant spreads the Stat arguments over the cases of a sweep.
func statVariant(c Case, i int) Case {
	c.Depth, c.MaxItem = []int{1, 2, 1 << 20}[i%3], []int{3, 1, 2, 1 << 20}[i%4]
	if c.V.Rep > 2048 && c.MaxItem > 100 {
		c.MaxItem = 100 // (the lines below the first are not looked at)
	}
	switch i % 5 {
	case 1:
		c.Depth0 = true
	case 2:
		c.Opt, c.AvgOf = 2+i%3, []int{1, 3, 1000}[i%3]
	case 3:
		c.Opt = 1
	}
	return c
}

type tv struct {
	name string
	t    T
	v    []V // templates
}

var i8 = int8(0)

// gridElems: element types of the container sweeps, with templates that differ element by element
// (nil next to non-nil, empty next to long, an attribute only at index 3 mod 4).
func gridElems() []tv {
	return []tv{
		{"struct-pad-string", T{K: "struct", Fields: []T{{K: "int8"}, {K: "string"}, {K: "int64"}}}, []V{{Elems: []V{{I: 1}, {Len: 5, I: 2}, {X: ^vk.U64(0)}}}, {Elems: []V{{}, {}, {}}}, {Elems: []V{{I: 3}, {Len: 40, I: 9}, {I: 1}}}}},
		{"array-u16", T{K: "array", Elem: tp("uint16"), Len: 2}, []V{{Elems: []V{{I: 1}, {X: 0xffff}}}}},
		{"ptr-int32", T{K: "ptr", Elem: tp("int32")}, []V{{Nil: true}, {Nil: true}, {Nil: true}, {Elems: []V{{X: 1 << 31}}}}},
		{"ptr-string", T{K: "ptr", Elem: tp("string")}, []V{{Elems: []V{{Len: 7, I: 3}}}, {Nil: true}, {Elems: []V{{}}}}},
		{"map-string-int8", T{K: "map", Key: tp("string"), Elem: tp("int8")}, []V{{Nil: true}, {Keys: []V{{Len: 4}, {Len: 9, I: 2}}, Elems: []V{{I: 1}, {X: 0x80}}}, {}}},
		{"string", T{K: "string"}, []V{{}, {Len: 1, I: 1}, {Len: 20, I: 2}, {Len: 3, I: 5}, {Len: 33, I: 3}}},
		{"iface", T{K: "iface"}, []V{{Nil: true}, {Dyn: tp("uint16"), Elems: []V{{I: 7}}}, {Dyn: tp("string"), Elems: []V{{Len: 9, I: 3}}}, {Dyn: &T{K: "ptr", Elem: tp("int8")}, Elems: []V{{Nil: true}}}}},
		{"int32", T{K: "int32"}, []V{{I: 1}, {X: 1 << 31}, {X: ^vk.U64(0)}}},
		{"slice-u8+ptr", T{K: "struct", Fields: []T{{K: "slice", Elem: tp("uint8")}, {K: "ptr", Elem: tp("string")}}}, []V{{Elems: []V{{Elems: make([]V, 3)}, {Elems: []V{{Len: 2}}}}}, {Elems: []V{{Nil: true}, {Nil: true}}}}},
		{"error", T{K: "ifaceM", Name: "error"}, []V{{Dyn: &implTs[0], Elems: []V{{I: 4}}}, {Nil: true}, {Dyn: &implTs[5], Elems: []V{{Nil: true}}}, {Dyn: &implTs[4], Elems: []V{{Elems: []V{{}, {Len: 6, I: 1}, {Elems: []V{{}}}}}}}, {Dyn: &implTs[1], Elems: []V{{Len: 11, I: 2}}}}},
		{"def-int16", T{K: "def", Name: "dInt16"}, []V{{I: 9}, {X: 0x8000}}},
		{"def-bytes", T{K: "def", Name: "dBytes"}, []V{{Elems: make([]V, 5)}, {Nil: true}, {}}},
	}
}

// expected structural size of one template element list, by hand for one entry (self-check of the builder)
func TestBuilderSelfCheck(t *testing.T) {
	type S struct {
		F0 int8
		F1 string
		F2 int64
	}
	val, want := build(T{K: "slice", Elem: &T{K: "struct", Fields: []T{{K: "int8"}, {K: "string"}, {K: "int64"}}}}, V{Rep: 7, Elems: []V{{Elems: []V{{I: 1}, {Len: 5, I: 2}, {}}}, {}}})
	if want != 24+7*(1+16+8)+4*5 || val.Len() != 7 || val.Index(6).Field(1).Len() != 5 || val.Index(5).Field(1).Len() != 0 {
		t.Fatalf("builder self-check: want %d, value %v", want, val)
	}
	if _, ok := val.Interface().([]struct {
		F0 int8
		F1 string
		F2 int64
	}); !ok {
		t.Fatalf("builder self-check: type %s", val.Type())
	}
	m, want := build(T{K: "map", Key: &T{K: "ptr", Elem: tp("float64")}, Elem: &T{K: "def", Name: "dString"}}, V{Rep: 9, Keys: []V{{Nil: true}, {Elems: []V{{X: 1}}}}, Elems: []V{{Len: 3}}})
	if want != 8+8+8*(8+8)+9*(16+3) || m.Len() != 9 {
		t.Fatalf("builder self-check (map): want %d, len %d", want, m.Len())
	}
	e, want := build(T{K: "struct", Fields: []T{{K: "ifaceM", Name: "error"}}}, V{Elems: []V{{Dyn: &implTs[5], Elems: []V{{Elems: []V{{Elems: []V{{}, {Len: 2}, {Nil: true}}}}}}}}})
	if want != 16+8+2+16+2+8 || e.Field(0).Elem().Elem().Field(1).Len() != 2 {
		t.Fatalf("builder self-check (error): want %d", want)
	}
	for l := 0; l < 70; l++ {
		for i := 0; i < 50; i++ {
			s, want := build(T{K: "string"}, V{Len: l, I: i})
			if s.Len() != l || want != 16+l {
				t.Fatalf("builder self-check (string): Len %d I %d: %q", l, i, s.String())
			}
		}
	}
	_ = S{}
}

// TestGrid: every scalar kind (and string) alone and one level inside every container; every Stat
// argument shape on them; scalar payload extremes; defined types and method-carrying interfaces in
// every position; every key kind; size sweeps (slices, maps, arrays, struct fields, string lengths,
// nesting levels) over 2^k-1, 2^k, 2^k+1 and random sizes of every octave.
func TestGrid(t *testing.T) {
	vk.SetPhase("grid")
	leaves := append([]string{"string"}, scalarKinds...)
	checker.Run(t, Case{NilArg: true, Class: "grid"})
	for _, k := range leaves {
		leaf := T{K: k}
		lv := V{I: 3, Len: 5}
		wrap := []struct {
			t T
			v V
		}{
			{leaf, lv},
			{T{K: "struct", Fields: []T{leaf}}, V{Elems: []V{lv}}},
			{T{K: "struct", Fields: []T{{K: "int8"}, leaf, {K: "string"}}}, V{Elems: []V{{}, lv, {Len: 2}}}},
			{T{K: "slice", Elem: &leaf}, V{Elems: []V{lv, lv}}},
			{T{K: "slice", Elem: &leaf}, V{Nil: true}},
			{T{K: "slice", Elem: &leaf}, V{}},
			{T{K: "array", Elem: &leaf, Len: 3}, V{Elems: []V{lv, lv, lv}}},
			{T{K: "array", Elem: &leaf, Len: 0}, V{}},
			{T{K: "map", Key: &T{K: "string"}, Elem: &leaf}, V{Keys: []V{{Len: 4}, {Len: 6}}, Elems: []V{lv, lv}}},
			{T{K: "map", Key: &T{K: "string"}, Elem: &leaf}, V{Nil: true}},
			{T{K: "ptr", Elem: &leaf}, V{Elems: []V{lv}}},
			{T{K: "ptr", Elem: &leaf}, V{Nil: true}},
			{T{K: "struct", Fields: []T{{K: "iface"}}}, V{Elems: []V{{Dyn: &leaf, Elems: []V{lv}}}}},
			{T{K: "struct", Fields: []T{{K: "iface"}}}, V{Elems: []V{{Nil: true}}}},
			{T{K: "shared", Elem: &leaf}, V{Elems: []V{lv}}},
		}
		for _, w := range wrap {
			for _, d := range []int{1, 2} {
				checker.Run(t, Case{T: w.t, V: w.v, Class: "grid", Depth: d, MaxItem: 3})
			}
			// Stat with depth 0 and with an option argument
			checker.Run(t, Case{T: w.t, V: w.v, Class: "grid-stat", Depth0: true, MaxItem: 3})
			for o := 1; o <= 4; o++ {
				checker.Run(t, Case{T: w.t, V: w.v, Class: "grid-stat", Depth: 1 + o%2, Depth0: o == 4, MaxItem: 3, Opt: o, AvgOf: []int{1, 2, 3, 1000}[o-1]})
			}
		}
		if k == "string" {
			continue
		}
		// payload extremes: the width of a scalar does not depend on its value
		for i, p := range payloads {
			pv := V{X: vk.U64(p)}
			checker.Run(t, Case{T: leaf, V: pv, Class: "grid-payload", Depth: 1, MaxItem: 1})
			checker.Run(t, statVariant(Case{T: T{K: "slice", Elem: &leaf}, V: V{Elems: []V{lv, pv, {X: vk.U64(vk.Mix(p))}}}, Class: "grid-payload"}, i))
			checker.Run(t, statVariant(Case{T: T{K: "struct", Fields: []T{{K: "bool"}, leaf, {K: "map", Key: &leaf, Elem: &leaf}}}, V: V{Elems: []V{{I: 1}, pv, {X: vk.U64(p), Keys: []V{{}}, Elems: []V{pv}}}}, Class: "grid-payload"}, i+1))
		}
	}
	// every key kind
	keyTypes := []T{{K: "bool"}, {K: "int"}, {K: "uint"}, {K: "uintptr"}, {K: "iface"}, {K: "array", Elem: &T{K: "int16"}, Len: 2}, {K: "struct", Fields: []T{{K: "int32"}, {K: "string"}}},
		{K: "string"}, {K: "int8"}, {K: "uint8"}, {K: "int16"}, {K: "uint16"}, {K: "int32"}, {K: "uint32"}, {K: "int64"}, {K: "uint64"}, {K: "float32"}, {K: "float64"}, {K: "complex64"}, {K: "complex128"},
		{K: "ptr", Elem: tp("int32")}, {K: "ptr", Elem: tp("string")}, {K: "ptr", Elem: &T{K: "slice", Elem: tp("uint16")}}, {K: "ptr", Elem: &T{K: "ptr", Elem: tp("float64")}},
		{K: "ifaceM", Name: "error"}, {K: "ifaceM", Name: "stringer"}, {K: "ifaceM", Name: "sizer"},
		{K: "array", Elem: tp("string"), Len: 3}, {K: "array", Elem: tp("float64"), Len: 2}, {K: "array", Elem: &T{K: "ptr", Elem: tp("int8")}, Len: 2}, {K: "array", Elem: tp("iface"), Len: 2}, {K: "array", Elem: tp("int64"), Len: 0},
		{K: "struct", Fields: []T{{K: "float32"}, {K: "ptr", Elem: tp("string")}, {K: "iface"}}}, {K: "struct", Fields: []T{{K: "struct", Fields: []T{{K: "bool"}, {K: "string"}}}, {K: "array", Elem: tp("uint8"), Len: 3}}}, {K: "struct"},
	}
	for _, n := range defKeyNames {
		keyTypes = append(keyTypes, T{K: "def", Name: n})
	}
	for i, kt := range keyTypes {
		kt := kt
		checker.Run(t, Case{T: T{K: "map", Key: &kt, Elem: &T{K: "string"}}, V: V{Keys: []V{{Len: 1}, {Len: 2}}, Elems: []V{{Len: 3}, {Len: 0}}, Rep: min(2, keyCap(kt))}, Class: "grid-key", Depth: 1, MaxItem: 1})
		if i < 7 {
			continue
		}
		for j, n := range []int{1, 3, 7, 12, 40} {
			n = min(n, keyCap(kt))
			kv := []V{{Len: 1, I: 1, Nil: true, Elems: []V{{Len: 3, I: 2, Elems: []V{{}}}, {Len: 9, I: 3}, {I: 5}}}, {Len: 12, I: 6, Nil: true, Elems: []V{{Len: 1}, {Len: 2, Nil: true}}}, {Len: 5, I: 4}}
			c := Case{T: T{K: "map", Key: &kt, Elem: &T{K: "string"}}, V: V{Keys: kv, Elems: []V{{Len: 3}, {Len: 0}, {Len: 17, I: 2}}, Rep: n, X: vk.U64([]uint64{0, ^uint64(0), 0x8000000000000001, 0xfedcba9876543212, 3}[(i+j)%5])}, Class: "grid-key"}
			checker.Run(t, statVariant(c, i+j))
			c.T = T{K: "struct", Fields: []T{{K: "map", Key: &kt, Elem: &T{K: "ptr", Elem: tp("int16")}}, {K: "uint8"}}}
			c.V = V{Elems: []V{{Keys: kv, Elems: []V{{Nil: true}, {Elems: []V{{I: 1}}}}, Rep: n, X: c.V.X}, {I: 1}}}
			checker.Run(t, statVariant(c, i+j+1))
		}
	}
	for _, ek := range []string{"int32", "uint8", "complex128"} {
		ek := ek
		for _, nk := range [][2]int{{8, 2}, {8, 0}, {8, 8}, {1, 1}, {5, 3}, {33, 17}, {1000, 999}, {300, 1}} {
			for _, d := range []int{1, 2, 3} {
				checker.Run(t, Case{T: T{K: "overlap", Elem: &T{K: ek}}, V: V{Len: nk[0], I: nk[1]}, Class: "grid-overlap", Depth: d, MaxItem: 2})
			}
		}
	}
	for _, k := range []string{"recA", "recB", "recA", "recB"} { // same printed type name, different layouts, alternating
		checker.Run(t, Case{T: T{K: k}, V: V{I: 3, Len: 4, Elems: make([]V, 3)}, Class: "grid", Depth: 2, MaxItem: 3})
		checker.Run(t, Case{T: T{K: "slice", Elem: &T{K: k}}, V: V{Elems: []V{{I: 1, Len: 2, Elems: make([]V, 2)}, {I: 2, Nil: true}}}, Class: "grid", Depth: 1, MaxItem: 1})
		checker.Run(t, Case{T: T{K: "slice", Elem: &T{K: k}}, V: V{Rep: 37, Elems: []V{{I: 1, Len: 20, Elems: make([]V, 9)}, {I: 2, Nil: true}, {I: 3, Len: 100, Elems: make([]V, 40)}}}, Class: "grid", Depth: 2, MaxItem: 100})
	}

	// structs with embedded fields, alone and as elements
	for i, k := range embKinds {
		for j, v := range []V{{}, {I: 1, Len: 3, Elems: make([]V, 2)}, {I: 2, Len: 40, Nil: true}, {I: 3, Len: 1, Elems: make([]V, 9)}, {I: 4, Len: 7}, {I: 5, Nil: true}} {
			checker.Run(t, statVariant(Case{T: T{K: k}, V: v, Class: "grid-embedded"}, i+j))
			checker.Run(t, statVariant(Case{T: T{K: "ptr", Elem: tp(k)}, V: V{Elems: []V{v}}, Class: "grid-embedded"}, i+j+1))
		}
		checker.Run(t, statVariant(Case{T: T{K: "slice", Elem: tp(k)}, V: V{Rep: 19, Elems: []V{{}, {I: 1, Len: 3, Elems: make([]V, 2)}, {I: 2, Len: 40, Nil: true}, {I: 3}, {I: 4, Len: 2}}}, Class: "grid-embedded"}, i))
		if k == "embV" || k == "embP" {
			checker.Run(t, statVariant(Case{T: T{K: "map", Key: tp(k), Elem: tp("embD")}, V: V{Rep: 9, Keys: []V{{}, {Len: 4}}, Elems: []V{{I: 3, Len: 5}, {I: 4, Nil: true}}}, Class: "grid-embedded"}, i))
		}
	}

	// defined (named) types in every position
	for i, n := range defNames {
		dt := T{K: "def", Name: n}
		dv := []V{{I: 7, Len: 6, Elems: []V{{I: 1, Len: 2}, {I: 2, Len: 9}, {I: 3}}, Keys: []V{{Len: 2}, {Len: 5}}, Dyn: tp("uint32")}, {X: vk.U64(payloads[i%len(payloads)]), Nil: true}, {I: 2, Len: 21}}
		if goType(dt).Kind() != reflect.Interface {
			for j := range dv {
				checker.Run(t, statVariant(Case{T: dt, V: dv[j], Class: "grid-def"}, i+j))
			}
		}
		for j, w := range []T{{K: "struct", Fields: []T{{K: "int8"}, dt, {K: "bool"}}}, {K: "slice", Elem: &dt}, {K: "array", Elem: &dt, Len: 3}, {K: "ptr", Elem: &dt}, {K: "map", Key: tp("int"), Elem: &dt}} {
			wv := V{Elems: dv, Keys: []V{{}, {}, {}}}
			if w.K == "struct" {
				wv = V{Elems: []V{{}, dv[0], {I: 1}}}
			}
			checker.Run(t, statVariant(Case{T: w, V: wv, Class: "grid-def"}, i+j))
			checker.Run(t, statVariant(Case{T: T{K: "slice", Elem: &w}, V: V{Rep: 21, Elems: []V{wv, {}, {Elems: dv[1:], Keys: []V{{}, {}}}}}, Class: "grid-def"}, i+j+2))
		}
		if goType(dt).Kind() != reflect.Interface {
			checker.Run(t, statVariant(Case{T: T{K: "struct", Fields: []T{{K: "iface"}, {K: "iface"}}}, V: V{Elems: []V{{Dyn: &dt, Elems: dv[:1]}, {Dyn: &T{K: "ptr", Elem: &dt}, Elems: []V{{Elems: dv[:1]}}}}}, Class: "grid-def"}, i))
		}
	}
	// interface types with methods: nil and every implementation, in every position
	for i, n := range mifaceNames {
		it := T{K: "ifaceM", Name: n}
		var vs []V
		for j := range implTs {
			vs = append(vs, V{Dyn: &implTs[j], Elems: []V{{I: 3 + j, Len: 4 + j, X: vk.U64(j % 2 * 0x80000000), Elems: []V{{I: 1}, {Len: 5, I: 2}, {Elems: []V{{I: 1}}}}, Keys: []V{{Len: 3}}}}})
			vs = append(vs, V{Dyn: &implTs[j], Elems: []V{{Nil: true, Elems: []V{{Nil: true}}}}})
		}
		vs = append(vs, V{Nil: true})
		for j, v := range vs {
			checker.Run(t, statVariant(Case{T: T{K: "struct", Fields: []T{{K: "uint8"}, it}}, V: V{Elems: []V{{I: 1}, v}}, Class: "grid-iface-methods"}, i+j))
			checker.Run(t, statVariant(Case{T: T{K: "ptr", Elem: &it}, V: V{Elems: []V{v}}, Class: "grid-iface-methods"}, i+j+1))
		}
		for j, w := range []T{{K: "slice", Elem: &it}, {K: "array", Elem: &it, Len: 17}, {K: "map", Key: tp("string"), Elem: &it}, {K: "map", Key: &it, Elem: &it}} {
			for _, rep := range []int{0, 3, 17, 50} {
				checker.Run(t, statVariant(Case{T: w, V: V{Elems: vs, Keys: []V{{Len: 3, I: 1}, {Len: 8, I: 2}}, Rep: rep}, Class: "grid-iface-methods"}, i+j+rep))
			}
		}
	}

	// ---- sparse containers: exactly one live element in every period of 2..9 elements, at every position of the period
	for pi, et := range []T{{K: "ptr", Elem: tp("int32")}, {K: "slice", Elem: tp("uint8")}, {K: "iface"}, {K: "map", Key: tp("string"), Elem: tp("int8")}, {K: "string"}} {
		et := et
		for period := 2; period <= 9; period++ {
			for hot := 0; hot < period; hot++ {
				elems := make([]V, period)
				for i := range elems {
					elems[i] = V{Nil: true}
				}
				elems[hot] = V{I: 7, Len: 3, Elems: []V{{I: 1}, {I: 2}, {I: 3}}, Keys: []V{{Len: 1}, {Len: 2}, {Len: 3}}}
				for _, rep := range []int{period, 2*period + 1, 5 * period} {
					checker.Run(t, statVariant(Case{T: T{K: "slice", Elem: &et}, V: V{Rep: rep, Elems: elems}, Class: "grid-sparse"}, pi+period+hot+rep))
				}
			}
		}
	}

	// ---- size sweeps
	n := 0
	for ei, e := range gridElems() {
		e := e
		khi := 11
		if e.name == "int32" || e.name == "string" {
			khi = vk.Pick(13, 17)
		}
		for _, sz := range sweepSizes(2, khi, vk.Pick(2, 8), uint64(ei)) {
			n++
			run := func() {
				checker.Run(t, statVariant(Case{T: T{K: "slice", Elem: &e.t}, V: V{Rep: sz, Elems: e.v, I: sz}, Class: "grid-sweep-slice"}, n))
			}
			if sz >= 1024 && e.name == "int32" {
				vk.ProcsSweep(run) // meets every GOMAXPROCS setting of the second process
			} else {
				run()
			}
			if sz <= 1100 {
				// arrays of that length; the same list one level down (field of a struct, behind a pointer)
				checker.Run(t, statVariant(Case{T: T{K: "array", Elem: &e.t, Len: sz}, V: V{Rep: sz, Elems: e.v}, Class: "grid-sweep-array"}, n+1))
			}
			if sz <= 300 {
				checker.Run(t, statVariant(Case{T: T{K: "struct", Fields: []T{{K: "bool"}, {K: "ptr", Elem: &T{K: "slice", Elem: &e.t}}, {K: "array", Elem: &e.t, Len: sz}}}, V: V{Elems: []V{{I: 1}, {Elems: []V{{Rep: sz, Elems: e.v}}}, {Rep: sz, Elems: e.v}}}, Class: "grid-sweep-nested"}, n+2))
				// a struct of that many fields (field types used cyclically)
				checker.Run(t, statVariant(Case{T: T{K: "struct", Fields: []T{{K: "int8"}, e.t, {K: "string"}, e.t, {K: "slice", Elem: &e.t}}, NF: sz}, V: V{Rep: sz, Elems: []V{{I: 1}, e.v[0], {Len: 4, I: 2}, e.v[len(e.v)-1], {Elems: e.v}}}, Class: "grid-sweep-fields"}, n+3))
			}
		}
	}
	sweepKeys := []T{{K: "string"}, {K: "int"}, {K: "int8"}, {K: "float64"}, {K: "complex64"}, {K: "ptr", Elem: tp("string")}, {K: "iface"}, {K: "ifaceM", Name: "error"}, {K: "struct", Fields: []T{{K: "int32"}, {K: "string"}}}, {K: "array", Elem: tp("float32"), Len: 2}, {K: "def", Name: "dString"}, {K: "def", Name: "duration"}}
	elems := gridElems()
	for ki := range sweepKeys {
		kt := sweepKeys[ki]
		for si, sz := range sweepSizes(2, vk.Pick(10, 12), vk.Pick(2, 6), 100+uint64(ki)) {
			if sz > keyCap(kt) {
				continue
			}
			n++
			e := elems[(ki+si)%len(elems)]
			kv := []V{{Len: 1, I: 1, Elems: []V{{Len: 3, I: 2}, {Len: 9, I: 3}}}, {Len: 12, I: 6, Nil: true}, {Len: 5, I: 4, Elems: []V{{Len: 7}}}, {Len: 70, I: 3}}
			checker.Run(t, statVariant(Case{T: T{K: "map", Key: &kt, Elem: &e.t}, V: V{Rep: sz, Keys: kv, Elems: e.v, X: vk.U64([]uint64{0, ^uint64(0), 0x8000000000000002, 0x7fffffffffffff01}[n%4])}, Class: "grid-sweep-map"}, n))
		}
	}
	// string lengths: every octave, every filler (multi-byte content up to the end), alone and inside a struct
	for si, sz := range sweepSizes(2, vk.Pick(14, 17), vk.Pick(3, 10), 200) {
		for _, i := range []int{si % 50, (si + 17) % 50} {
			checker.Run(t, Case{T: T{K: "string"}, V: V{Len: sz, I: i}, Class: "grid-sweep-string", Depth: 1, MaxItem: 1})
			if sz <= 5000 {
				checker.Run(t, statVariant(Case{T: T{K: "struct", Fields: []T{{K: "int8"}, {K: "string"}, {K: "slice", Elem: tp("string")}, {K: "map", Key: tp("string"), Elem: tp("string")}}}, V: V{Elems: []V{{I: 1}, {Len: sz, I: i}, {Elems: []V{{Len: 2}, {Len: sz, I: i + 1}}}, {Keys: []V{{Len: sz, I: i}}, Elems: []V{{Len: sz + 1, I: i + 2}}}}}, Class: "grid-sweep-string"}, si))
			}
		}
	}
	// nesting levels: chains of one wrapper kind and of all of them in rotation, 5..64 (thorough: 200) levels
	levels := []int{5, 6, 7, 8, 9, 10, 11, 12, 13, 15, 16, 17, 24, 31, 32, 33, 48, 64}
	if vk.Thorough() {
		levels = append(levels, 100, 128, 200)
	}
	for _, d := range levels {
		for w := 0; w < 8; w++ {
			cur, cv := T{K: "string"}, V{Len: 3, I: 1}
			for j := 0; j < d; j++ {
				inner, iv := cur, cv
				k := w
				if w == 7 {
					k = (j + d) % 7
				}
				if k == 5 && (inner.K == "iface" || j == d-1) {
					k = 0
				}
				switch k {
				case 0:
					cur, cv = T{K: "ptr", Elem: &inner}, V{Elems: []V{iv}}
				case 1:
					cur, cv = T{K: "slice", Elem: &inner}, V{Elems: []V{{Nil: true}, iv}}
				case 2:
					cur, cv = T{K: "array", Elem: &inner, Len: 1}, V{Elems: []V{iv}}
				case 3:
					cur, cv = T{K: "struct", Fields: []T{{K: "int8"}, inner, {K: "string"}}}, V{Elems: []V{{I: 1}, iv, {Len: 2}}}
				case 4:
					cur, cv = T{K: "map", Key: tp("string"), Elem: &inner}, V{Keys: []V{{Len: 2}, {Len: 3}}, Elems: []V{iv, {Nil: true}}}
				case 5:
					cur, cv = T{K: "iface"}, V{Dyn: &inner, Elems: []V{iv}}
				default: // []interface{} holding []interface{} ...: the type stays flat, only the value is deep
					cur, cv = T{K: "slice", Elem: tp("iface")}, V{Elems: []V{{Dyn: &inner, Elems: []V{iv}}, {Nil: true}}}
				}
			}
			checker.Run(t, statVariant(Case{T: cur, V: cv, Class: "grid-levels"}, d+w))
		}
	}

	// large containers (size thresholds of any bulk fast path)
	for _, n := range []int{1023, 1024, 1025, 70001} {
		for _, ek := range []string{"int32", "uint8", "string", "iface"} {
			ek := ek
			elems := make([]V, 35)
			for i := range elems {
				elems[i] = V{I: i % 50, Len: i % 7}
				if ek == "iface" {
					elems[i] = V{Dyn: &T{K: "uint16"}, Elems: []V{{I: i % 9}}}
					if i%5 == 0 {
						elems[i] = V{Nil: true}
					}
				}
			}
			run := func() {
				checker.Run(t, Case{T: T{K: "slice", Elem: &T{K: ek}}, V: V{Elems: elems, Rep: n}, Class: "grid-large", Depth: 1, MaxItem: 2})
			}
			if n < 2000 || ek == "uint8" {
				vk.ProcsSweep(run)
			} else {
				run()
			}
		}
		checker.Run(t, Case{T: T{K: "string"}, V: V{Len: n}, Class: "grid-large"})
	}
	checker.Run(t, Case{T: T{K: "named1"}, V: V{I: 3, Len: 4, Elems: make([]V, 3)}, Class: "grid", Depth: 2, MaxItem: 3})
	checker.Run(t, Case{T: T{K: "named2"}, V: V{I: 2, Len: 4, Elems: make([]V, 2)}, Class: "grid", Depth: 2, MaxItem: 3})
	checker.Run(t, Case{T: T{K: "named1"}, V: V{I: 3, Len: 500, Elems: make([]V, 77)}, Class: "grid", Depth: 2, MaxItem: 3})
	checker.Run(t, Case{T: T{K: "named2"}, V: V{I: 2, Len: 129, Elems: make([]V, 90)}, Class: "grid", Depth: 2, MaxItem: 3})
	vk.MarkExhaustive("every scalar kind and string: alone, in structs, slices (nil/empty/non-empty), arrays, map values, pointers (nil/non-nil), interfaces (nil/non-nil), shared pointers, each with Stat depth 0/1/2 and every option shape; 16 payload bit patterns per scalar kind; every key kind; every defined type and every implementation of every method-carrying interface in every position")
}

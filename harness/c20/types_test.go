package c20

import (
	"fmt"
	"reflect"
	"time"
)

// Defined (named) types over every scalar kind and over a string, slices, a map, an array, a pointer,
// an interface and a struct: the structural sum depends on the KIND of a value, never on its type's
// name, package or method set.
type (
	dBool       bool
	dInt        int
	dInt8       int8
	dInt16      int16
	dInt32      int32
	dInt64      int64
	dUint       uint
	dUint8      uint8
	dUint16     uint16
	dUint32     uint32
	dUint64     uint64
	dUintptr    uintptr
	dFloat32    float32
	dFloat64    float64
	dComplex64  complex64
	dComplex128 complex128
	dString     string
	dBytes      []byte
	dStrs       []string
	dMap        map[string]int32
	dArr        [3]int16
	dPtr        *int32
	dAny        interface{}
	dStruct     struct {
		F0 int8
		F1 string
		F2 uint32
	}
)

func (d dInt32) String() string { return "d" }
func (d dString) Error() string { return "d" }

// sizer is a non-empty interface type declared here; error and fmt.Stringer are the two others used.
type sizer interface{ Sz() int }

// Implementations of error, fmt.Stringer and sizer (value receivers, so *eStruct implements them too).
// The methods are constant: nothing the library may call on them has an effect.
type (
	eInt    int32
	eStr    string
	eFloat  float64
	eArr    [2]float32
	eStruct struct {
		F0 int16
		F1 string
		F2 *int8
	}
	eSlice []uint16
	eMap   map[string]bool
)

func (eInt) Error() string     { return "e" }
func (eInt) String() string    { return "e" }
func (eInt) Sz() int           { return -1 }
func (eStr) Error() string     { return "e" }
func (eStr) String() string    { return "e" }
func (eStr) Sz() int           { return -1 }
func (eFloat) Error() string   { return "e" }
func (eFloat) String() string  { return "e" }
func (eFloat) Sz() int         { return -1 }
func (eArr) Error() string     { return "e" }
func (eArr) String() string    { return "e" }
func (eArr) Sz() int           { return -1 }
func (eStruct) Error() string  { return "e" }
func (eStruct) String() string { return "e" }
func (eStruct) Sz() int        { return -1 }
func (eSlice) Error() string   { return "e" }
func (eSlice) String() string  { return "e" }
func (eSlice) Sz() int         { return -1 }
func (eMap) Error() string     { return "e" }
func (eMap) String() string    { return "e" }
func (eMap) Sz() int           { return -1 }

type defInfo struct {
	rt    reflect.Type
	under T
	urt   reflect.Type // goType(under)
}

var defs = map[string]defInfo{}

// defNames is the fixed order the generator draws from.
var defNames []string

func addDef(name string, x interface{}, under T) {
	defs[name] = defInfo{rt: reflect.TypeOf(x), under: under}
	defNames = append(defNames, name)
}

func tp(k string) *T { return &T{K: k} }

func init() {
	addDef("dBool", dBool(false), T{K: "bool"})
	addDef("dInt", dInt(0), T{K: "int"})
	addDef("dInt8", dInt8(0), T{K: "int8"})
	addDef("dInt16", dInt16(0), T{K: "int16"})
	addDef("dInt32", dInt32(0), T{K: "int32"})
	addDef("dInt64", dInt64(0), T{K: "int64"})
	addDef("dUint", dUint(0), T{K: "uint"})
	addDef("dUint8", dUint8(0), T{K: "uint8"})
	addDef("dUint16", dUint16(0), T{K: "uint16"})
	addDef("dUint32", dUint32(0), T{K: "uint32"})
	addDef("dUint64", dUint64(0), T{K: "uint64"})
	addDef("dUintptr", dUintptr(0), T{K: "uintptr"})
	addDef("dFloat32", dFloat32(0), T{K: "float32"})
	addDef("dFloat64", dFloat64(0), T{K: "float64"})
	addDef("dComplex64", dComplex64(0), T{K: "complex64"})
	addDef("dComplex128", dComplex128(0), T{K: "complex128"})
	addDef("duration", time.Duration(0), T{K: "int64"})
	addDef("dString", dString(""), T{K: "string"})
	addDef("dBytes", dBytes(nil), T{K: "slice", Elem: tp("uint8")})
	addDef("dStrs", dStrs(nil), T{K: "slice", Elem: tp("string")})
	addDef("dMap", dMap(nil), T{K: "map", Key: tp("string"), Elem: tp("int32")})
	addDef("dArr", dArr{}, T{K: "array", Elem: tp("int16"), Len: 3})
	addDef("dPtr", dPtr(nil), T{K: "ptr", Elem: tp("int32")})
	addDef("dStruct", dStruct{}, T{K: "struct", Fields: []T{{K: "int8"}, {K: "string"}, {K: "uint32"}}})
	addDef("eInt", eInt(0), T{K: "int32"})
	addDef("eStr", eStr(""), T{K: "string"})
	addDef("eFloat", eFloat(0), T{K: "float64"})
	addDef("eArr", eArr{}, T{K: "array", Elem: tp("float32"), Len: 2})
	addDef("eStruct", eStruct{}, T{K: "struct", Fields: []T{{K: "int16"}, {K: "string"}, {K: "ptr", Elem: tp("int8")}}})
	addDef("eSlice", eSlice(nil), T{K: "slice", Elem: tp("uint16")})
	addDef("eMap", eMap(nil), T{K: "map", Key: tp("string"), Elem: tp("bool")})
	// dAny is an interface type: reflect.TypeOf of a value would give the dynamic type
	defs["dAny"] = defInfo{rt: reflect.TypeOf((*dAny)(nil)).Elem(), under: T{K: "iface"}}
	defNames = append(defNames, "dAny")
	for n, d := range defs {
		d.urt = goType(d.under)
		if !d.urt.ConvertibleTo(d.rt) {
			panic("c20: defined type " + n + " is not convertible from its described underlying type")
		}
		defs[n] = d
	}
	for _, it := range implTs {
		rt := goType(it)
		for n, m := range mifaces {
			if !rt.Implements(m) {
				panic(fmt.Sprintf("c20: %s does not implement %s", rt, n))
			}
		}
	}
}

// comparable defined types (usable as map keys; every one of them has a leaf that can take the ordinal)
var defKeyNames = []string{"dInt64", "dInt16", "dUint8", "dUintptr", "dFloat64", "dComplex64", "duration", "dString", "dArr", "dPtr", "dStruct", "dBool", "eInt", "eStr", "eArr", "eStruct"}

var mifaces = map[string]reflect.Type{
	"error":    reflect.TypeOf((*error)(nil)).Elem(),
	"stringer": reflect.TypeOf((*fmt.Stringer)(nil)).Elem(),
	"sizer":    reflect.TypeOf((*sizer)(nil)).Elem(),
}

var mifaceNames = []string{"error", "stringer", "sizer"}

// implTs: the dynamic types a method-carrying interface may hold; the first nCmpImpls are comparable
// and have an unbounded leaf (usable inside map keys).
var implTs = []T{
	{K: "def", Name: "eInt"}, {K: "def", Name: "eStr"}, {K: "def", Name: "eFloat"}, {K: "def", Name: "eArr"}, {K: "def", Name: "eStruct"},
	{K: "ptr", Elem: &T{K: "def", Name: "eStruct"}},
	{K: "def", Name: "eSlice"}, {K: "def", Name: "eMap"},
}

const nCmpImpls = 6

// keyDyns: what an interface{} map key may hold (comparable, ordinal-carrying leaf of unbounded capacity)
var keyDyns = []T{
	{K: "int"}, {K: "string"}, {K: "float64"},
	{K: "array", Elem: &T{K: "int16"}, Len: 2},
	{K: "struct", Fields: []T{{K: "int32"}, {K: "string"}}},
	{K: "ptr", Elem: &T{K: "int64"}},
	{K: "def", Name: "dInt64"}, {K: "def", Name: "dString"}, {K: "uint64"}, {K: "complex128"},
}

// Structs with embedded (anonymous) fields: an embedded struct, an embedded pointer to a struct (nil or
// not) next to a field that shadows a promoted one, two levels of embedding, an embedded interface and
// an embedded defined string (no blank `_` fields: whether they are parts is not fixed by the statement). A struct is the plain sum of its fields; an embedded field
// is ONE field (its promoted fields are not further parts of the outer struct).
type base struct {
	A int32
	B string
}

type embV struct {
	base
	N uint16
}

type embP struct {
	*base
	N uint16
	A int8
}

type embD struct {
	embV
	*embP
	X []uint8
}

type embI struct {
	error
	dString
	u uint16
	n int8
}

var embKinds = []string{"embV", "embP", "embD", "embI"}

func isEmb(k string) bool { return k == "embV" || k == "embP" || k == "embD" || k == "embI" }

func embType(k string) reflect.Type {
	switch k {
	case "embV":
		return reflect.TypeOf(embV{})
	case "embP":
		return reflect.TypeOf(embP{})
	case "embD":
		return reflect.TypeOf(embD{})
	}
	return reflect.TypeOf(embI{})
}

// mkEmb builds the value of an embedding struct and its expected size. v.Len: length of the strings,
// v.I: scalar payloads and (odd) a non-nil embedded pointer, v.Nil: nil slice / nil interface,
// len(v.Elems): length of the byte slice.
func mkEmb(k string, v V) (reflect.Value, int) {
	n := max(v.Len, 0)
	b := base{A: int32(v.I), B: mkString("", n, v.I)}
	bsz := 4 + 16 + n
	ev := embV{base: b, N: 7}
	evsz := bsz + 2
	ep := embP{N: 1, A: int8(v.I)}
	epsz := 8 + 2 + 1
	if v.I%2 == 1 {
		b2 := b
		ep.base = &b2
		epsz += bsz
	}
	switch k {
	case "embV":
		return reflect.ValueOf(ev), evsz
	case "embP":
		return reflect.ValueOf(ep), epsz
	case "embD":
		d := embD{embV: ev}
		sum := evsz + 8 + 24
		if v.I%3 != 0 {
			ep2 := ep
			d.embP = &ep2
			sum += epsz
		}
		if !v.Nil {
			d.X = make([]uint8, len(v.Elems))
			sum += len(v.Elems)
		}
		return reflect.ValueOf(d), sum
	}
	e := embI{dString: dString(b.B), u: uint16(v.I), n: 1}
	sum := 16 + 16 + n + 2 + 1
	if !v.Nil {
		if v.I%2 == 0 {
			e.error = eStr(b.B)
			sum += 16 + n
		} else {
			e.error = &eStruct{F0: 1, F1: b.B}
			sum += 8 + 2 + 16 + n + 8
		}
	}
	return reflect.ValueOf(e), sum
}

// Package c12 decides property C12: bitmap construction (Of, OfMany, Builder)
// and inspection (ToArray, Get, Get1, SafeGet, SafeGet1) agree on the set bits.
package c12

import (
	"fmt"
	"math"
	"sort"
	"testing"

	"github.com/openacid/low/bitmap"
	"pgregory.net/rapid"

	"verif/harness/gen"
	"verif/harness/vk"
)

func TestMain(m *testing.M) { vk.Main(m, "C12") }

type Step struct {
	Kind      string  `json:"kind"` // extend | set
	Positions []int32 `json:"positions,omitempty"`
	Size      int32   `json:"size,omitempty"`
	Pos       int32   `json:"pos,omitempty"`
	Value     int32   `json:"value,omitempty"`
}

type Case struct {
	Op  string `json:"op"`            // of | bitmap | ofmany | builder | maxbitmap
	Max int    `json:"max,omitempty"` // maxbitmap: description of the maximum bitmap (exactly 2^25 words = 2^31 bits, gen.UseMax)
	// of
	Positions []int32 `json:"positions,omitempty"`
	HasN      bool    `json:"has_n,omitempty"`
	N         int32   `json:"n,omitempty"`
	// bitmap
	Words  vk.Words `json:"words,omitempty"`
	Probes []int32  `json:"probes,omitempty"`
	// ofmany
	Subs  [][]int32 `json:"subs,omitempty"`
	Sizes []int32   `json:"sizes,omitempty"`
	// builder
	Prealloc int32  `json:"prealloc,omitempty"`
	Steps    []Step `json:"steps,omitempty"`
	Class    string `json:"class,omitempty"`
}

var checker = &vk.Checker[Case]{
	ID: "C12",
	Rule: "Of: ascending position lists (empty, 63/64/65/127/128, gaps up to 2^20; a class with runs of adjacent positions) x n in {absent, negative, 0, < last+1, last+1, last+2, word boundary +-1, far larger}; arbitrary bitmaps for ToArray/Of round trips and Get/Get1/SafeGet/SafeGet1 probes (inside; outside: -1, -64, MinInt32, 64*len, 64*len+63, MaxInt32); " +
		"OfMany on segments cut from one global ascending list (positions >= size occur, size 0 occurs); Builder histories of Extend (ascending positions incl. >= size, size >= 0) and Set(pos, value in {0,1}) on builders pre-sized with 0/64/1000 bits, model compared after EVERY step (Offset, exact bits, enough words). Oracle: a set of bit positions + word-count formula. " +
		"Top of the int32 range: Of / OfMany with last position 2^31-1 or sizes up to 2^31-1 (results of 2^25 words), Get/Get1/SafeGet/SafeGet1 on the maximum bitmap (exactly 2^25 words, three sparse descriptions); thorough also ToArray of it. " +
		"Grid: Of on all subsets of {0,1,62,63,64,65,127,128} x 12 values of n. Non-trivial: >= 2 positions spanning >= 2 words (Of/bitmap); histories with >= 2 segments in which a position >= its size or an offset crosses a word boundary. Distinct by hash of the case.",
	Check:    check,
	Classify: classify,
}

func bitOf(w []uint64, i int) uint64 { return w[i/64] >> (uint(i) % 64) & 1 }

func bitsEqual(got []uint64, set map[int]bool) (int, bool) {
	exp := map[int]uint64{}
	for p := range set {
		if p >= 64*len(got) {
			return p, false
		}
		exp[p/64] |= 1 << (uint(p) % 64)
	}
	seen := 0
	for wi, g := range got {
		if g == 0 { // (no map lookup for the empty words of a huge result)
			continue
		}
		if g != exp[wi] {
			d := g ^ exp[wi]
			for b := 0; b < 64; b++ {
				if d>>uint(b)&1 == 1 {
					return 64*wi + b, false
				}
			}
		}
		seen++
	}
	if seen != len(exp) {
		for wi, e := range exp {
			if got[wi] != e {
				d := got[wi] ^ e
				for b := 0; b < 64; b++ {
					if d>>uint(b)&1 == 1 {
						return 64*wi + b, false
					}
				}
			}
		}
	}
	return 0, true
}

// short renders a bitmap for a failure message (huge ones are abbreviated).
func short(w []uint64) string {
	if len(w) <= 64 {
		return fmt.Sprintf("%#x", w)
	}
	return fmt.Sprintf("%#x ... (%d words)", w[:8], len(w))
}

// guarded returns a copy of p with spare capacity that holds canaries, and a function that reports a damaged canary.
func guarded(p []int32) ([]int32, func() string) {
	buf := make([]int32, len(p)+3)
	copy(buf, p)
	for i := len(p); i < len(buf); i++ {
		buf[i] = int32(-0x0CA11AB1 - i)
	}
	return buf[:len(p):len(buf)], func() string {
		for i := len(p); i < len(buf); i++ {
			if buf[i] != int32(-0x0CA11AB1-i) {
				return fmt.Sprintf("the spare capacity of a position list argument (len %d) was written: element %d beyond its length is now %d", len(p), i-len(p), buf[i])
			}
		}
		for i := range p {
			if buf[i] != p[i] {
				return fmt.Sprintf("position list argument modified: element %d was %d, now %d", i, p[i], buf[i])
			}
		}
		return ""
	}
}

var keepResult func(func() string)

func init() { keepResult = checker.Keep }

func watchWords(what string, r []uint64) {
	expect := append([]uint64(nil), r...)
	vk.ScribbleU64(r)
	keepResult(func() string {
		for i := range expect {
			if r[i] != expect[i] {
				return fmt.Sprintf("%s: word %d was %#x, now %#x", what, i, expect[i], r[i])
			}
		}
		return ""
	})
}

func checkOf(c Case) *vk.Failure {
	pos, posOK := guarded(c.Positions)
	var got []uint64
	if f := vk.Try(fmt.Sprintf("Of(%v, n=%v/%d)", c.Positions, c.HasN, c.N), func() {
		if c.HasN {
			got = bitmap.Of(pos, c.N)
		} else {
			got = bitmap.Of(pos)
		}
	}); f != nil {
		return f
	}
	need := int64(0)
	if c.HasN {
		need = int64(c.N)
	}
	if len(c.Positions) > 0 && int64(c.Positions[len(c.Positions)-1])+1 > need {
		need = int64(c.Positions[len(c.Positions)-1]) + 1
	}
	if need < 0 {
		need = 0
	}
	if int64(len(got)) != (need+63)/64 {
		return vk.Failf("of-len", "Of(%v, n=%v/%d) has %d words, want %d", c.Positions, c.HasN, c.N, len(got), (need+63)/64)
	}
	set := map[int]bool{}
	strict := true
	for i, p := range c.Positions {
		set[int(p)] = true
		if i > 0 && c.Positions[i-1] >= p {
			strict = false
		}
	}
	if p, ok := bitsEqual(got, set); !ok {
		return vk.Failf("of-bits", "Of(%v, n=%v/%d): bit %d is wrong (words %s)", c.Positions, c.HasN, c.N, p, short(got))
	}
	if strict && (len(got) <= 1<<21 || vk.Pick(false, true)) { // (ToArray of a 2^25-word bitmap takes seconds: thorough only)
		var arr []int32
		if f := vk.Try("ToArray(Of(l))", func() { arr = bitmap.ToArray(got) }); f != nil {
			return f
		}
		if len(arr) != len(c.Positions) {
			return vk.Failf("toarray-of", "ToArray(Of(%v)) = %v", c.Positions, arr)
		}
		for i := range arr {
			if arr[i] != c.Positions[i] {
				return vk.Failf("toarray-of", "ToArray(Of(%v)) = %v", c.Positions, arr)
			}
		}
	}
	if msg := posOK(); msg != "" {
		return vk.Failf("of-mutates", "Of: %s", msg)
	}
	if len(got) <= 1<<12 {
		watchWords(fmt.Sprintf("Of(%d positions)", len(c.Positions)), got)
	}
	return nil
}

var scratch vk.Scratch

func checkBitmap(c Case) (f *vk.Failure) {
	words := c.Words.Clone()
	if reused := scratch.Reuse(vk.SumU64(c.Words)); reused {
		words = scratch.U64(c.Words) // every other case: a reused buffer with guarded spare capacity
		defer func() {
			if msg := scratch.Check(); f == nil && msg != "" {
				f = vk.Failf("argument-spare-capacity-written", "%s", msg)
			}
		}()
	}
	nbits := 64 * len(words)
	var want []int32
	for i := 0; i < nbits; i++ {
		if bitOf(c.Words, i) == 1 {
			want = append(want, int32(i))
		}
	}
	var arr []int32
	if f := vk.Try("ToArray", func() { arr = bitmap.ToArray(words) }); f != nil {
		return f
	}
	if len(arr) != len(want) {
		return vk.Failf("toarray", "ToArray(%#x) has %d entries, want %d", c.Words, len(arr), len(want))
	}
	for i := range arr {
		if arr[i] != want[i] {
			return vk.Failf("toarray", "ToArray(%#x)[%d] = %d, want %d", c.Words, i, arr[i], want[i])
		}
	}
	// Of(ToArray(b), 64*len) == b ; Of(ToArray(b)) == b minus trailing zero words
	var back, backTrim []uint64
	if f := vk.Try("Of(ToArray(b))", func() {
		back = bitmap.Of(arr, int32(nbits))
		backTrim = bitmap.Of(arr)
	}); f != nil {
		return f
	}
	if len(back) != len(c.Words) {
		return vk.Failf("of-toarray-sized", "Of(ToArray(b), %d) has %d words, want %d", nbits, len(back), len(c.Words))
	}
	for i := range back {
		if back[i] != c.Words[i] {
			return vk.Failf("of-toarray-sized", "Of(ToArray(b), %d)[%d] = %#x, want %#x", nbits, i, back[i], c.Words[i])
		}
	}
	trim := len(c.Words)
	for trim > 0 && c.Words[trim-1] == 0 {
		trim--
	}
	if len(backTrim) != trim {
		return vk.Failf("of-toarray", "Of(ToArray(b)) has %d words, want %d (b without trailing zero words)", len(backTrim), trim)
	}
	for i := range backTrim {
		if backTrim[i] != c.Words[i] {
			return vk.Failf("of-toarray", "Of(ToArray(b))[%d] = %#x, want %#x", i, backTrim[i], c.Words[i])
		}
	}
	probe := func(p int32) *vk.Failure {
		inside := p >= 0 && int(p) < nbits
		var b uint64
		if inside {
			b = bitOf(c.Words, int(p))
		}
		var sg, sg1, g, g1 uint64
		if f := vk.Try(fmt.Sprintf("SafeGet/SafeGet1(%d) on %d words", p, len(words)), func() {
			sg, sg1 = bitmap.SafeGet(words, p), bitmap.SafeGet1(words, p)
		}); f != nil {
			f.Kind = "safeget-panic"
			return f
		}
		wantInPlace := b << (uint(p) & 63)
		if sg != wantInPlace || sg1 != b {
			return vk.Failf("safeget", "SafeGet/SafeGet1(bm of %d words, %d) = %#x/%d, want %#x/%d", len(words), p, sg, sg1, wantInPlace, b)
		}
		if inside {
			if f := vk.Try(fmt.Sprintf("Get/Get1(%d)", p), func() { g, g1 = bitmap.Get(words, p), bitmap.Get1(words, p) }); f != nil {
				return f
			}
			if g != wantInPlace || g1 != b {
				return vk.Failf("get", "Get/Get1(bm, %d) = %#x/%d, want %#x/%d", p, g, g1, wantInPlace, b)
			}
		}
		return nil
	}
	for _, p := range []int32{-1, -63, -64, -65, math.MinInt32, math.MinInt32 + 63, int32(nbits), int32(nbits) + 1, int32(nbits) + 63, int32(nbits) + 64, math.MaxInt32, math.MaxInt32 - 63} {
		if f := probe(p); f != nil {
			return f
		}
	}
	for _, p := range c.Probes {
		if f := probe(p); f != nil {
			return f
		}
	}
	if nbits <= 512 {
		for p := 0; p < nbits; p++ {
			if f := probe(int32(p)); f != nil {
				return f
			}
		}
	}
	for i := range words {
		if words[i] != c.Words[i] {
			return vk.Failf("mutates", "an inspection function modified word %d", i)
		}
	}
	return nil
}

// checkMaxBitmap: inspection of the largest bitmap whose positions fit an int32 (sparse oracle from its description).
func checkMaxBitmap(v int) *vk.Failure {
	if v < 0 || v >= gen.MaxVariants {
		return nil
	}
	words := gen.UseMax(v)
	ps := append(gen.MaxProbes(), -1, -64, math.MinInt32, math.MinInt32+63)
	for _, p64 := range ps {
		p := int32(p64)
		var b uint64
		if p >= 0 {
			b = gen.MaxBit(p64)
		}
		wantInPlace := b << (uint(p) & 63)
		var sg, sg1, g, g1 uint64
		if f := vk.Try(fmt.Sprintf("SafeGet/SafeGet1(%d) on 2^25 words", p), func() {
			sg, sg1 = bitmap.SafeGet(words, p), bitmap.SafeGet1(words, p)
		}); f != nil {
			f.Kind = "safeget-panic"
			return f
		}
		if sg != wantInPlace || sg1 != b {
			return vk.Failf("safeget", "SafeGet/SafeGet1(2^25-word bitmap (description %d), %d) = %#x/%d, want %#x/%d", v, p, sg, sg1, wantInPlace, b)
		}
		if p >= 0 {
			if f := vk.Try(fmt.Sprintf("Get/Get1(%d) on 2^25 words", p), func() { g, g1 = bitmap.Get(words, p), bitmap.Get1(words, p) }); f != nil {
				return f
			}
			if g != wantInPlace || g1 != b {
				return vk.Failf("get", "Get/Get1(2^25-word bitmap (description %d), %d) = %#x/%d, want %#x/%d", v, p, g, g1, wantInPlace, b)
			}
		}
	}
	if vk.Pick(false, true) { // bit-by-bit over 2^31 positions: seconds, thorough only
		want := gen.MaxOnes()
		var arr []int32
		if f := vk.Try("ToArray(2^25 words)", func() { arr = bitmap.ToArray(words) }); f != nil {
			return f
		}
		if len(arr) != len(want) {
			return vk.Failf("toarray", "ToArray(2^25-word bitmap (description %d)) has %d entries, want %d", v, len(arr), len(want))
		}
		for i := range arr {
			if int64(arr[i]) != want[i] {
				return vk.Failf("toarray", "ToArray(2^25-word bitmap (description %d))[%d] = %d, want %d", v, i, arr[i], want[i])
			}
		}
	}
	if k, bad := gen.MaxBitmapDamage(); bad {
		return vk.Failf("mutates", "an inspection function modified word %d of the 2^25-word bitmap", k)
	}
	return nil
}

func checkOfMany(c Case) *vk.Failure {
	subs := make([][]int32, len(c.Subs))
	oks := make([]func() string, len(c.Subs))
	for i := range c.Subs {
		subs[i], oks[i] = guarded(c.Subs[i])
	}
	sizes := append([]int32(nil), c.Sizes...)
	var got []uint64
	if f := vk.Try(fmt.Sprintf("OfMany(%v, %v)", c.Subs, c.Sizes), func() { got = bitmap.OfMany(subs, sizes) }); f != nil {
		return f
	}
	set := map[int]bool{}
	base, maxbit := int64(0), int64(-1)
	for k := range c.Subs {
		for _, p := range c.Subs[k] {
			a := base + int64(p)
			set[int(a)] = true
			if a > maxbit {
				maxbit = a
			}
		}
		base += int64(c.Sizes[k])
	}
	need := base
	if maxbit+1 > need {
		need = maxbit + 1
	}
	// "enough words for every bit": the exact count (Of's, with the sum of the sizes as n) is what the library
	// returns today, the statement only needs every bit to have its word; bitsEqual below compares all bits
	_ = need
	if int64(len(got)) < (maxbit+1+63)/64 {
		return vk.Failf("ofmany-len", "OfMany(%v, %v) has %d words, too few for bit %d", c.Subs, c.Sizes, len(got), maxbit)
	}
	if p, ok := bitsEqual(got, set); !ok {
		return vk.Failf("ofmany-bits", "OfMany(%v, %v): bit %d is wrong (words %s)", c.Subs, c.Sizes, p, short(got))
	}
	for i, ok := range oks {
		if msg := ok(); msg != "" {
			return vk.Failf("ofmany-mutates", "OfMany(%v, %v), sub-list %d: %s", c.Subs, c.Sizes, i, msg)
		}
	}
	if len(got) <= 1<<12 {
		watchWords("OfMany", got)
	}
	return nil
}

func checkBuilder(c Case) *vk.Failure {
	var b *bitmap.Builder
	if f := vk.Try("NewBuilder", func() { b = bitmap.NewBuilder(c.Prealloc) }); f != nil {
		return f
	}
	set := map[int]bool{}
	offset, maxbit := int64(0), int64(-1)
	for si, s := range c.Steps {
		switch s.Kind {
		case "extend":
			pos, posOK := guarded(s.Positions)
			if f := vk.Try(fmt.Sprintf("step %d: Extend(%v, %d) at Offset %d", si, s.Positions, s.Size, offset), func() { b.Extend(pos, s.Size) }); f != nil {
				return f
			}
			if msg := posOK(); msg != "" {
				return vk.Failf("extend-mutates", "step %d Extend(%v, %d): %s", si, s.Positions, s.Size, msg)
			}
			for _, p := range s.Positions {
				a := offset + int64(p)
				set[int(a)] = true
				if a > maxbit {
					maxbit = a
				}
			}
			offset += int64(s.Size)
		default:
			if s.Value != 0 && s.Value != 1 {
				return nil // a bit value is 0 or 1: anything else is outside the domain (never generated)
			}
			if f := vk.Try(fmt.Sprintf("step %d: Set(%d, %d)", si, s.Pos, s.Value), func() { b.Set(s.Pos, s.Value) }); f != nil {
				return f
			}
			if s.Value == 1 {
				set[int(s.Pos)] = true
				if int64(s.Pos) > maxbit {
					maxbit = int64(s.Pos)
				}
			}
			if offset <= int64(s.Pos) {
				offset = int64(s.Pos) + 1
			}
		}
		if int64(b.Offset) != offset {
			return vk.Failf("builder-offset", "after step %d (%+v): Offset = %d, want %d", si, s, b.Offset, offset)
		}
		if p, ok := bitsEqual(b.Words, set); !ok {
			return vk.Failf("builder-bits", "after step %d (%+v): bit %d is wrong (words %#x)", si, s, p, b.Words)
		}
		if int64(64*len(b.Words)) < offset || int64(64*len(b.Words)) < maxbit+1 {
			return vk.Failf("builder-words", "after step %d (%+v): %d words do not cover Offset %d / highest bit %d", si, s, len(b.Words), offset, maxbit)
		}
	}
	return nil
}

func check(c Case) *vk.Failure {
	switch c.Op {
	case "of":
		return checkOf(c)
	case "bitmap":
		return checkBitmap(c)
	case "ofmany":
		return checkOfMany(c)
	case "maxbitmap":
		return checkMaxBitmap(c.Max)
	}
	return checkBuilder(c)
}

func classify(c Case) (bool, []string) {
	labels := []string{"op:" + c.Op}
	if c.Class != "" {
		labels = append(labels, "class:"+c.Class)
	}
	switch c.Op {
	case "of":
		n := len(c.Positions)
		nt := n >= 2 && c.Positions[n-1]/64 != c.Positions[0]/64
		if c.HasN {
			last := int32(-1)
			if n > 0 {
				last = c.Positions[n-1]
			}
			switch {
			case c.N < 0:
				labels = append(labels, "n:negative")
			case c.N <= last:
				labels = append(labels, "n:<=last")
			case c.N == last+1:
				labels = append(labels, "n:last+1")
			default:
				labels = append(labels, "n:larger")
			}
		} else {
			labels = append(labels, "n:absent")
		}
		return nt, labels
	case "maxbitmap":
		return true, labels
	case "bitmap":
		cnt, first, last := 0, -1, -1
		for i := 0; i < 64*len(c.Words); i++ {
			if bitOf(c.Words, i) == 1 {
				cnt++
				if first < 0 {
					first = i
				}
				last = i
			}
		}
		return cnt >= 2 && first/64 != last/64, labels
	case "ofmany":
		over, cross := false, false
		base := int64(0)
		for k := range c.Subs {
			for _, p := range c.Subs[k] {
				if p >= c.Sizes[k] {
					over = true
				}
			}
			if base%64 != 0 {
				cross = true
			}
			base += int64(c.Sizes[k])
		}
		if over {
			labels = append(labels, "position>=size")
		}
		return len(c.Subs) >= 2 && (over || cross), labels
	}
	segs, over, cross, sets := 0, false, false, 0
	off := int64(0)
	for _, s := range c.Steps {
		if s.Kind == "extend" {
			segs++
			for _, p := range s.Positions {
				if p >= s.Size {
					over = true
				}
			}
			if off%64 != 0 {
				cross = true
			}
			off += int64(s.Size)
		} else {
			sets++
			if off <= int64(s.Pos) {
				off = int64(s.Pos) + 1
			}
		}
	}
	if over {
		labels = append(labels, "position>=size")
	}
	if sets > 0 {
		labels = append(labels, "has-set")
	}
	return segs >= 2 && (over || cross), labels
}

// ---------------------------------------------------------------- generators

var boundaryPos = []int32{0, 1, 62, 63, 64, 65, 127, 128, 129, 191, 192, 255, 256}

func genAscending(t *rapid.T, maxN int, maxGap int, label string) []int32 {
	n := gen.Len(t, maxN, label+".n")
	out := make([]int32, 0, n)
	cur := int64(-1)
	for i := 0; i < n; i++ {
		var gap int64
		switch gen.Uniform(t, 6, label+".gapclass") {
		case 0:
			gap = 1
		case 1:
			gap = 1 + int64(gen.Uniform(t, 3, label+".g"))
		case 2: // land on the next word boundary -1/0/+1
			nb := (cur/64+1)*64 + int64(gen.Uniform(t, 3, label+".b")) - 1
			gap = nb - cur
			if gap < 1 {
				gap = 1
			}
		case 3:
			gap = 1 + int64(gen.U64(t, label+".big")%uint64(maxGap))
		default:
			gap = 1 + int64(gen.Uniform(t, 70, label+".g"))
		}
		cur += gap
		out = append(out, int32(cur))
	}
	return out
}

func genOf(t *rapid.T) Case {
	c := Case{Op: "of"}
	switch gen.Uniform(t, 5, "pclass") {
	case 0:
		c.Class = "boundary-subset"
		for _, p := range boundaryPos {
			if gen.Chance(t, 1, 2, "pick") {
				c.Positions = append(c.Positions, p)
			}
		}
	case 1:
		c.Class = "runs" // runs of adjacent positions (a repeated position is not an ascending list: not generated)
		base := genAscending(t, 12, 200, "pos")
		last := int32(-1)
		for _, p := range base {
			for k := int32(0); k <= int32(gen.Uniform(t, 4, "run")); k++ {
				if q := p + k; q > last {
					c.Positions = append(c.Positions, q)
					last = q
				}
			}
		}
	case 2:
		c.Class = "large-gaps"
		c.Positions = genAscending(t, 20, 1<<20, "pos")
	default:
		c.Class = "ascending"
		c.Positions = genAscending(t, 60, 300, "pos")
	}
	last := int64(-1)
	if n := len(c.Positions); n > 0 {
		last = int64(c.Positions[n-1])
	}
	switch gen.Uniform(t, 9, "nclass") {
	case 0:
	case 1:
		c.HasN, c.N = true, -1-int32(gen.U64(t, "neg")%1000)
	case 2:
		c.HasN, c.N = true, 0
	case 3:
		c.HasN, c.N = true, int32(max(last-int64(gen.Uniform(t, 70, "below")), 0))
	case 4:
		c.HasN, c.N = true, int32(last+1)
	case 5:
		c.HasN, c.N = true, int32(last+2)
	case 6:
		c.HasN, c.N = true, int32((last/64+1)*64+int64(gen.Uniform(t, 3, "b"))-1)
	case 7:
		c.HasN, c.N = true, int32(last+1+int64(gen.U64(t, "far")%100000))
	default:
		c.HasN, c.N = true, math.MinInt32
	}
	return c
}

func genBitmap(t *rapid.T) Case {
	w, style := gen.Bitmap(t, vk.Pick(12, 200), "bm")
	nbits := 64 * len(w)
	var probes []int32
	for i := 0; i < 16; i++ {
		switch gen.Uniform(t, 3, "pclass") {
		case 0:
			probes = append(probes, int32(gen.U64(t, "any")))
		case 1:
			probes = append(probes, int32(nbits)+int32(gen.Uniform(t, 200, "over"))-100)
		default:
			if nbits > 0 {
				probes = append(probes, int32(gen.Uniform(t, nbits, "in")))
			}
		}
	}
	return Case{Op: "bitmap", Words: w, Probes: probes, Class: style}
}

// genSegments cuts one global ascending list of absolute positions into
// segments so that the concatenation of the shifted lists stays ascending
// (Of's documented input) while positions >= size still occur.
func genOfMany(t *rapid.T) Case {
	nseg := 1 + gen.Len(t, vk.Pick(11, 60), "nseg")
	sizes := make([]int32, nseg)
	bases := make([]int64, nseg+1)
	for k := range sizes {
		switch gen.Uniform(t, 6, "sclass") {
		case 0:
			sizes[k] = 0
		case 1:
			sizes[k] = 64
		case 2:
			sizes[k] = int32(1 + gen.Uniform(t, 5, "s"))
		default:
			sizes[k] = int32(gen.Uniform(t, 200, "s"))
		}
		bases[k+1] = bases[k] + int64(sizes[k])
	}
	abs := genAscending(t, vk.Pick(40, 200), 150, "abs")
	subs := make([][]int32, nseg)
	cur := 0
	for _, a := range abs {
		// the segment pointer may advance to any later segment whose base is <= a
		hi := cur
		for hi+1 < nseg && bases[hi+1] <= int64(a) {
			hi++
		}
		if bases[cur] > int64(a) {
			continue // cannot happen: bases[cur] <= previous position < a
		}
		var k int
		switch gen.Uniform(t, 3, "assign") {
		case 0:
			k = cur // stay: position may exceed this segment's size
		case 1:
			k = hi // natural owner
		default:
			k = cur + gen.Uniform(t, hi-cur+1, "k")
		}
		subs[k] = append(subs[k], int32(int64(a)-bases[k]))
		// collision: a position beyond its segment's size may be listed again by the segment that owns it
		// (the quantifier includes positions >= size; the bitmap is the union)
		if k < hi && gen.Chance(t, 1, 8, "collide") {
			subs[hi] = append(subs[hi], int32(int64(a)-bases[hi]))
			k = hi
		}
		cur = k
	}
	for k := range subs {
		if subs[k] == nil {
			subs[k] = []int32{}
		}
	}
	return Case{Op: "ofmany", Subs: subs, Sizes: sizes}
}

func genBuilder(t *rapid.T) Case {
	c := Case{Op: "builder", Prealloc: rapid.SampledFrom([]int32{0, 64, 1000, 63, 65}).Draw(t, "prealloc")}
	n := 1 + gen.Len(t, vk.Pick(11, 200), "steps")
	for i := 0; i < n; i++ {
		if gen.Chance(t, 1, 4, "set") {
			var pos int32
			switch gen.Uniform(t, 3, "posclass") {
			case 0:
				pos = int32(gen.Uniform(t, 130, "p"))
			case 1:
				pos = rapid.SampledFrom(boundaryPos).Draw(t, "pb")
			default:
				pos = int32(gen.Uniform(t, 3000, "p"))
			}
			c.Steps = append(c.Steps, Step{Kind: "set", Pos: pos, Value: int32(gen.Uniform(t, 2, "value"))})
			continue
		}
		var size int32
		switch gen.Uniform(t, 6, "sclass") {
		case 0:
			size = 0
		case 1:
			size = 64
		case 2:
			size = int32(1 + gen.Uniform(t, 5, "s"))
		default:
			size = int32(gen.Uniform(t, 200, "s"))
		}
		pos := genAscending(t, 8, 60, "pos")
		// keep positions near the segment: inside, or a little beyond size
		lim := int64(size) + int64(gen.Uniform(t, 80, "slack"))
		var kept []int32
		for _, p := range pos {
			if int64(p) <= lim {
				kept = append(kept, p)
			}
		}
		c.Steps = append(c.Steps, Step{Kind: "extend", Positions: kept, Size: size})
	}
	return c
}

func genCase(t *rapid.T) Case {
	switch gen.Uniform(t, 6, "op") {
	case 0, 1:
		return genOf(t)
	case 2:
		return genBitmap(t)
	case 3:
		return genOfMany(t)
	}
	return genBuilder(t)
}

func TestRegress(t *testing.T) { checker.Regress(t) }

func TestGrid(t *testing.T) {
	vk.SetPhase("grid")
	pool := []int32{0, 1, 62, 63, 64, 65, 127, 128}
	for sub := 0; sub < 1<<len(pool); sub++ {
		var pos []int32
		for i, p := range pool {
			if sub>>uint(i)&1 == 1 {
				pos = append(pos, p)
			}
		}
		sort.Slice(pos, func(i, j int) bool { return pos[i] < pos[j] })
		checker.Run(t, Case{Op: "of", Positions: pos, Class: "grid"})
		for _, n := range []int32{math.MinInt32, -1, 0, 1, 63, 64, 65, 128, 129, 130, 192, 1000} {
			checker.Run(t, Case{Op: "of", Positions: pos, HasN: true, N: n, Class: "grid"})
		}
	}
	// long lists and bitmaps (size thresholds)
	for _, n := range []int{65535, 65536, 65537, 200001} {
		for _, stride := range []int{1, 3, 64, 129} {
			pos := make([]int32, n)
			for i := range pos {
				pos[i] = int32(i*stride + i%stride)
			}
			checker.Run(t, Case{Op: "of", Positions: pos, Class: "grid-long"})
			checker.Run(t, Case{Op: "of", Positions: pos, HasN: true, N: pos[n-1] + 70, Class: "grid-long"})
		}
		w := make(vk.Words, n/16)
		for i := range w {
			w[i] = vk.Mix(uint64(i)+uint64(n)) & vk.Mix(uint64(i)*3)
		}
		checker.Run(t, Case{Op: "bitmap", Words: w, Probes: []int32{0, int32(64*len(w)) - 1, 65536, 65535}, Class: "grid-long"})
	}
	// OfMany on every pair of segments over positions 0..3 (sizes 0..3 / 4), including positions >= size that
	// collide with a position of the next segment; the rebased list stays non-decreasing (Of's input contract)
	for size0 := int32(0); size0 <= 3; size0++ {
		for a := 0; a < 16; a++ {
			for b := 0; b < 16; b++ {
				var pa, pb []int32
				for p := int32(0); p < 4; p++ {
					if a>>uint(p)&1 == 1 {
						pa = append(pa, p)
					}
					if b>>uint(p)&1 == 1 {
						pb = append(pb, p)
					}
				}
				if len(pa) > 0 && len(pb) > 0 && pa[len(pa)-1] > size0+pb[0] {
					continue
				}
				checker.Run(t, Case{Op: "ofmany", Subs: [][]int32{pa, pb}, Sizes: []int32{size0, 4}, Class: "grid-two-segments"})
			}
		}
	}
	vk.MarkExhaustive("Of on all subsets of {0,1,62,63,64,65,127,128} x n in {absent, MinInt32, -1, 0, 1, 63, 64, 65, 128, 129, 130, 192, 1000}")
}

func TestProp(t *testing.T) { checker.Prop(t, genCase) }

func FuzzProp(f *testing.F) { checker.Fuzz(f, genCase) }

// TestLast runs at the very end of the process: huge inputs (the maximum bitmap / string) and the regression cases of that size come last, so that
// what they leave behind in the library cannot mask anything the ordinary cases would have met.
func TestLast(t *testing.T) {
	vk.SetPhase("last")
	// the top of the int32 range: results of exactly 2^25 words (untouched pages cost nothing)
	top := int32(math.MaxInt32)
	for _, c := range []Case{
		{Op: "of", Positions: []int32{3, top}},
		{Op: "of", Positions: []int32{top}},
		{Op: "of", Positions: []int32{0, top - 64, top - 1, top}},
		{Op: "of", Positions: []int32{top - 1}},
		{Op: "of", Positions: []int32{top - 63}},
		{Op: "of", Positions: []int32{top - 64}},
		{Op: "of", Positions: nil, HasN: true, N: top},
		{Op: "of", Positions: []int32{3}, HasN: true, N: top - 62},
		{Op: "of", Positions: []int32{3}, HasN: true, N: top - 63},
		{Op: "of", Positions: []int32{5, 1 << 30, top}, HasN: true, N: top},
		{Op: "of", Positions: []int32{5, 1 << 30, top - 1}, HasN: true, N: top},
		{Op: "ofmany", Subs: [][]int32{{1}, {5}}, Sizes: []int32{1 << 30, 1<<30 - 1}},
		{Op: "ofmany", Subs: [][]int32{{1}, {5, 1<<30 - 1}, {}}, Sizes: []int32{1 << 30, 1 << 29, 1<<29 - 1}},
		{Op: "ofmany", Subs: [][]int32{{0}, {1<<30 - 2}}, Sizes: []int32{1<<30 + 1, 1<<30 - 2}},
	} {
		c.Class = "grid-top-of-int32"
		checker.Run(t, c)
	}
	for v := 0; v < gen.MaxVariants; v++ {
		checker.Run(t, Case{Op: "maxbitmap", Max: v, Class: "grid-maximum"})
	}
	checker.RegressLast(t)
}

// Package c12 decides property C12: bitmap construction (Of, OfMany, Builder)
// and inspection (ToArray, Get, Get1, SafeGet, SafeGet1) agree on the set bits.
package c12

import (
	"fmt"
	"math"
	"math/bits"
	"sort"
	"testing"

	"github.com/openacid/low/bitmap"
	"pgregory.net/rapid"

	"verif/harness/gen"
	"verif/harness/vk"
)

func TestMain(m *testing.M) { vk.Main(m, "C12") }

type Step struct {
	Kind      string  `json:"kind"` // extend | set
	Positions []int32 `json:"positions,omitempty"`
	Size      int32   `json:"size,omitempty"`
	Pos       int32   `json:"pos,omitempty"`
	Value     int32   `json:"value,omitempty"`
}

type Case struct {
	Op  string `json:"op"`            // of | bitmap | ofmany | builder | maxbitmap
	Max int    `json:"max,omitempty"` // maxbitmap: description of the maximum bitmap (exactly 2^25 words = 2^31 bits, gen.UseMax)
	// of
	Positions []int32 `json:"positions,omitempty"`
	HasN      bool    `json:"has_n,omitempty"`
	N         int32   `json:"n,omitempty"`
	// bitmap
	Words  vk.Words `json:"words,omitempty"`
	Probes []int32  `json:"probes,omitempty"`
	// ofmany
	Subs  [][]int32 `json:"subs,omitempty"`
	Sizes []int32   `json:"sizes,omitempty"`
	// builder
	Prealloc int32  `json:"prealloc,omitempty"`
	Steps    []Step `json:"steps,omitempty"`
	Class    string `json:"class,omitempty"`
	// Shape selects how the (same) argument values are handed to the library: an empty list as nil / empty with
	// guarded spare capacity / empty exact-size; a non-empty list with guarded spare capacity or as an exact-size copy
	// (see shapeSel / shaped). 0 = every list non-nil with guarded spare capacity (what every case did before the
	// field existed, so older case files keep their meaning).
	Shape uint32 `json:"shape,omitempty"`
	// ToArr (of, maxbitmap): run the bit-by-bit ToArray even though the bitmap is beyond the quick tier's size limit.
	ToArr bool `json:"toarr,omitempty"`
}

var checker = &vk.Checker[Case]{
	ID: "C12",
	Rule: "Of: ascending position lists (empty - nil and non-nil -, 63/64/65/127/128, gaps up to 2^20; a class with runs of adjacent positions; a class of long lists, 61..4096 (thorough 65536) positions with a log-uniform count) x n in {absent, negative, 0, < last+1, last+1, last+2, word boundary +-1, far larger}; arbitrary bitmaps for ToArray/Of round trips and Get/Get1/SafeGet/SafeGet1 probes (inside; outside: -1, -64, MinInt32, 64*len, 64*len+63, MaxInt32), of 0..12 words and, classes big-*, of 13..4108 (thorough 65548) words with a log-uniform length, probed bit by bit in the first and last two words and at up to 512 of their ones; " +
		"OfMany on segments cut from one global ascending list (positions >= size occur, size 0 occurs): few small segments, or segment sizes of log-uniform magnitude up to 2^24 (running sums in every octave up to 2^27), or up to 512 (thorough 4096) small segments, or - classes segments:one-position-each / positions:many - a number of one-position segments or a number of positions (in 1..3 segments) of log-uniform magnitude up to 2^17 (thorough 2^18), or no segment at all (nil / empty arguments); sub-lists reach the library nil, empty or with guarded spare capacity, element-wise mixed; Builder histories of Extend (ascending positions incl. >= size, size >= 0) and Set(pos, value in {0,1}) on pre-sized builders (0/63/64/65/1000 bits or log-uniform), model compared after EVERY step (Offset, exact bits, enough words), while a second builder (history derived from the case: one Set, then the same steps starting in the middle; not for histories beyond 2^22 bits) is created and filled in between - each of the two is read again after every step of the other one, and both after the later cases: up to 12 small steps, or sizes / Set positions of log-uniform magnitude up to 2^20 (thorough 2^24), or 30..345 (thorough 2140) steps. Oracle: the sorted list of bit positions (Builder: a sparse word model) + word-count formula; OfMany and Builder.Words must have a word for every bit of the declared sizes and for every listed position (lower bound only; the exact count is asserted for Of alone). Results of Of / OfMany (up to 4096 words) and of ToArray (up to 4096 entries) have their spare capacity overwritten and are read again after the later cases. " +
		"Top of the int32 range: Of / OfMany with last position 2^31-1 or sizes up to 2^31-1 (results of 2^25 words), a Builder history that ends at Offset 2^31-1 (pre-sized; thorough also grown word by word), Get/Get1/SafeGet/SafeGet1 on the maximum bitmap (exactly 2^25 words, three sparse descriptions) and ToArray of one of them (thorough: all three). " +
		"Grid: Of on all subsets of {0,1,62,63,64,65,127,128} x 12 values of n; sweeps over 2^k-1, 2^k, 2^k+1 and values inside every octave for: the last position of Of (25 <= k <= 30), the running sum of OfMany (k <= 29), the number of OfMany segments (k <= 16 and 2^16+4, 2^17+1; beyond 2^13 with one position per segment) and the total number of OfMany positions (14 <= k <= 16 and 2^16+64, 2^17+1; in one and in three segments), Builder segment sizes and Set positions (k <= 24), the number of Builder steps (k <= 12), position-list lengths (k <= 14) and bitmap lengths in words (k <= 13), those of 128 elements and more under every GOMAXPROCS setting of the procs process. Non-trivial: >= 2 positions spanning >= 2 words (Of/bitmap); histories with >= 2 segments in which a position >= its size or an offset crosses a word boundary. Distinct by hash of the case.",
	Check:    check,
	Classify: classify,
	KeepLen:  24, // a case registers up to three results (Of / OfMany words, ToArray lists, two builders)
}

func bitOf(w []uint64, i int) uint64 { return w[i/64] >> (uint(i) % 64) & 1 }

// bitsMatch compares a result with the sorted (non-decreasing) list of the positions that must be 1 - every other
// bit of every word must be 0. It returns a wrong bit position (a listed position without a word counts as wrong).
func bitsMatch(got []uint64, sorted []int64) (int64, bool) {
	i, wi := 0, 0
	for wi < len(got) {
		// the words before the next listed position are all zero (the long empty stretches of a huge result are
		// compared four words at a time)
		next := len(got)
		if i < len(sorted) && sorted[i]>>6 < int64(next) {
			next = int(sorted[i] >> 6)
		}
		for ; wi+4 <= next; wi += 4 {
			if got[wi]|got[wi+1]|got[wi+2]|got[wi+3] != 0 {
				break
			}
		}
		for ; wi < next; wi++ {
			if g := got[wi]; g != 0 {
				return 64*int64(wi) + int64(bits.TrailingZeros64(g)), false
			}
		}
		if wi >= len(got) {
			break
		}
		var e uint64
		for i < len(sorted) && sorted[i]>>6 == int64(wi) {
			e |= 1 << (uint64(sorted[i]) & 63)
			i++
		}
		if g := got[wi]; g != e {
			return 64*int64(wi) + int64(bits.TrailingZeros64(g^e)), false
		}
		wi++
	}
	if i < len(sorted) {
		return sorted[i], false
	}
	return 0, true
}

// sorted64 returns the positions as a non-decreasing list (generated lists already are; a hand-written case file
// may hold anything) and whether the list as given was strictly ascending.
func sorted64(out []int64) ([]int64, bool) {
	strict, nondecr := true, true
	for i := 1; i < len(out); i++ {
		if out[i-1] >= out[i] {
			strict = false
		}
		if out[i-1] > out[i] {
			nondecr = false
		}
	}
	if !nondecr {
		sort.Slice(out, func(i, j int) bool { return out[i] < out[j] })
	}
	return out, strict
}

// wordModel is the oracle of a Builder history: the expected non-zero words, kept sparse (a history may end at bit 2^31-1).
type wordModel struct {
	words  map[int64]uint64
	maxbit int64
}

func newWordModel() *wordModel { return &wordModel{words: map[int64]uint64{}, maxbit: -1} }

func (m *wordModel) set(p int64) {
	m.words[p>>6] |= 1 << (uint64(p) & 63)
	if p > m.maxbit {
		m.maxbit = p
	}
}

// diff returns the lowest wrong bit of got (a model bit without a word counts as wrong).
func (m *wordModel) diff(got []uint64) (int64, bool) {
	nz := 0
	for wi := 0; wi < len(got); wi++ {
		if wi+4 <= len(got) && got[wi]|got[wi+1]|got[wi+2]|got[wi+3] == 0 {
			wi += 3 // (the long empty stretches of a huge result: four words at a time, no map lookup)
			continue
		}
		g := got[wi]
		if g == 0 {
			continue
		}
		if e := m.words[int64(wi)]; g != e {
			return 64*int64(wi) + int64(bits.TrailingZeros64(g^e)), false
		}
		nz++
	}
	if nz == len(m.words) {
		return 0, true
	}
	bad := int64(math.MaxInt64)
	for wi, e := range m.words {
		var g uint64
		if wi < int64(len(got)) {
			g = got[wi]
		}
		if g != e {
			if p := 64*wi + int64(bits.TrailingZeros64(g^e)); p < bad {
				bad = p
			}
		}
	}
	return bad, false
}

// short renders a bitmap for a failure message (huge ones are abbreviated).
func short(w []uint64) string {
	if len(w) <= 64 {
		return fmt.Sprintf("%#x", w)
	}
	return fmt.Sprintf("%#x ... (%d words)", w[:8], len(w))
}

// shortList renders a position list for a failure message (long ones are abbreviated; the case file has all of it).
func shortList(p []int32) string {
	if len(p) <= 64 {
		return fmt.Sprintf("%v", p)
	}
	return fmt.Sprintf("%v ... %v (%d positions)", p[:8], p[len(p)-4:], len(p))
}

// argList is shortList for a list argument: an empty one is named by the shape in which it was passed.
func argList(p []int32, sel int) string {
	if len(p) == 0 {
		return []string{"[] (cap 3)", "nil", "[] (cap 0)", "nil"}[sel]
	}
	return shortList(p)
}

func shortSubs(subs [][]int32, sizes []int32) string {
	n := 0
	for _, s := range subs {
		n += len(s)
	}
	if len(subs) <= 24 && n <= 200 {
		return fmt.Sprintf("%v, %v", subs, sizes)
	}
	return fmt.Sprintf("%d segments with %d positions, the first %s of size %d (all of it in the case file)", len(subs), n, shortList(subs[0]), sizes[0])
}

// shapeSel derives the 2-bit shape selector of the i-th list argument of a case (see shaped).
func shapeSel(shape uint32, i int) int {
	if shape == 0 {
		return 0
	}
	if i == 0 {
		return int(shape & 3)
	}
	return int(vk.Mix(uint64(shape)<<20^uint64(i)) & 3)
}

// shaped returns the list the library is given - a private copy of p - and a function that reports damage.
// Empty p: sel 0 = empty with spare capacity that holds canaries, 1 and 3 = nil, 2 = empty without capacity.
// Non-empty p: sel 0..2 = spare capacity that holds canaries, 3 = exact-size copy.
func shaped(p []int32, sel int) ([]int32, func() string) {
	if len(p) == 0 && (sel == 1 || sel == 3) {
		return nil, func() string { return "" }
	}
	spare := 3
	if (len(p) == 0 && sel == 2) || (len(p) > 0 && sel == 3) {
		spare = 0
	}
	buf := make([]int32, len(p)+spare)
	copy(buf, p)
	for i := len(p); i < len(buf); i++ {
		buf[i] = int32(-0x0CA11AB1 - i)
	}
	return buf[:len(p):len(buf)], func() string {
		for i := len(p); i < len(buf); i++ {
			if buf[i] != int32(-0x0CA11AB1-i) {
				return fmt.Sprintf("the spare capacity of a position list argument (len %d) was written: element %d beyond its length is now %d", len(p), i-len(p), buf[i])
			}
		}
		for i := range p {
			if buf[i] != p[i] {
				return fmt.Sprintf("position list argument modified: element %d was %d, now %d", i, p[i], buf[i])
			}
		}
		return ""
	}
}

var keepResult func(func() string)

func init() { keepResult = checker.Keep }

func watchWords(what string, r []uint64) {
	expect := append([]uint64(nil), r...)
	vk.ScribbleU64(r)
	keepResult(func() string {
		for i := range expect {
			if r[i] != expect[i] {
				return fmt.Sprintf("%s: word %d was %#x, now %#x", what, i, expect[i], r[i])
			}
		}
		return ""
	})
}

// watchList is watchWords for a position list that ToArray returned: want is what it must contain (a private copy is
// kept), its spare capacity is overwritten, and it is read again after the later cases.
func watchList(what string, r []int32, want []int32) {
	expect := append([]int32(nil), want...)
	vk.ScribbleI32(r)
	keepResult(func() string {
		if len(r) != len(expect) {
			return fmt.Sprintf("%s: had %d entries, now %d", what, len(expect), len(r))
		}
		for i := range expect {
			if r[i] != expect[i] {
				return fmt.Sprintf("%s: entry %d was %d, now %d", what, i, expect[i], r[i])
			}
		}
		return ""
	})
}

// quickToArrayWords: ToArray scans bit by bit (about 1 ns per bit); in the quick tier it is run on results of up to
// 2^19 words (33 ms), beyond that only where the case asks for it (ToArr) or in the thorough tier.
const quickToArrayWords = 1 << 19

func checkOf(c Case) *vk.Failure {
	pos, posOK := shaped(c.Positions, shapeSel(c.Shape, 0))
	var got []uint64
	ofArg := func() string { return argList(c.Positions, shapeSel(c.Shape, 0)) }
	if f := vk.TryF(func() string { return fmt.Sprintf("Of(%s, n=%v/%d)", ofArg(), c.HasN, c.N) }, func() {
		if c.HasN {
			got = bitmap.Of(pos, c.N)
		} else {
			got = bitmap.Of(pos)
		}
	}); f != nil {
		return f
	}
	need := int64(0)
	if c.HasN {
		need = int64(c.N)
	}
	if len(c.Positions) > 0 && int64(c.Positions[len(c.Positions)-1])+1 > need {
		need = int64(c.Positions[len(c.Positions)-1]) + 1
	}
	if need < 0 {
		need = 0
	}
	if int64(len(got)) != (need+63)/64 {
		return vk.Failf("of-len", "Of(%s, n=%v/%d) has %d words, want %d", ofArg(), c.HasN, c.N, len(got), (need+63)/64)
	}
	p64 := make([]int64, len(c.Positions))
	for i, p := range c.Positions {
		p64[i] = int64(p)
	}
	want, strict := sorted64(p64)
	if p, ok := bitsMatch(got, want); !ok {
		return vk.Failf("of-bits", "Of(%s, n=%v/%d): bit %d is wrong (words %s)", ofArg(), c.HasN, c.N, p, short(got))
	}
	if strict && (len(got) <= quickToArrayWords || c.ToArr || vk.Pick(false, true)) {
		var arr []int32
		if f := vk.Try("ToArray(Of(l))", func() { arr = bitmap.ToArray(got) }); f != nil {
			return f
		}
		if len(arr) != len(c.Positions) {
			return vk.Failf("toarray-of", "ToArray(Of(%s)) = %s", shortList(c.Positions), shortList(arr))
		}
		for i := range arr {
			if arr[i] != c.Positions[i] {
				return vk.Failf("toarray-of", "ToArray(Of(%s)) = %s (entry %d is %d, want %d)", shortList(c.Positions), shortList(arr), i, arr[i], c.Positions[i])
			}
		}
		if len(arr) <= 1<<12 {
			defer watchList(fmt.Sprintf("ToArray(Of(%d positions))", len(c.Positions)), arr, c.Positions)
		}
	}
	if msg := posOK(); msg != "" {
		return vk.Failf("of-mutates", "Of: %s", msg)
	}
	if len(got) <= 1<<12 {
		watchWords(fmt.Sprintf("Of(%d positions)", len(c.Positions)), got)
	}
	return nil
}

var scratch vk.Scratch

func checkBitmap(c Case) (f *vk.Failure) {
	words := c.Words.Clone()
	if len(c.Words) == 0 && c.Shape != 0 {
		// the empty bitmap: nil, or empty without capacity
		words = nil
		if c.Shape&1 == 0 {
			words = []uint64{}
		}
	} else if reused := scratch.Reuse(vk.SumU64(c.Words)); reused {
		words = scratch.U64(c.Words) // every other case: a reused buffer with guarded spare capacity
		defer func() {
			if msg := scratch.Check(); f == nil && msg != "" {
				f = vk.Failf("argument-spare-capacity-written", "%s", msg)
			}
		}()
	}
	nbits := 64 * len(words)
	var want []int32
	for wi, w := range c.Words {
		for ; w != 0; w &= w - 1 {
			want = append(want, int32(64*wi+bits.TrailingZeros64(w)))
		}
	}
	var arr []int32
	if f := vk.Try("ToArray", func() { arr = bitmap.ToArray(words) }); f != nil {
		return f
	}
	if len(arr) != len(want) {
		return vk.Failf("toarray", "ToArray(%s) has %d entries, want %d", short(c.Words), len(arr), len(want))
	}
	for i := range arr {
		if arr[i] != want[i] {
			return vk.Failf("toarray", "ToArray(%s)[%d] = %d, want %d", short(c.Words), i, arr[i], want[i])
		}
	}
	// Of(ToArray(b), 64*len) == b ; Of(ToArray(b)) == b minus trailing zero words
	var back, backTrim []uint64
	if f := vk.Try("Of(ToArray(b))", func() {
		back = bitmap.Of(arr, int32(nbits))
		backTrim = bitmap.Of(arr)
	}); f != nil {
		return f
	}
	if len(back) != len(c.Words) {
		return vk.Failf("of-toarray-sized", "Of(ToArray(b), %d) has %d words, want %d", nbits, len(back), len(c.Words))
	}
	for i := range back {
		if back[i] != c.Words[i] {
			return vk.Failf("of-toarray-sized", "Of(ToArray(b), %d)[%d] = %#x, want %#x", nbits, i, back[i], c.Words[i])
		}
	}
	trim := len(c.Words)
	for trim > 0 && c.Words[trim-1] == 0 {
		trim--
	}
	if len(backTrim) != trim {
		return vk.Failf("of-toarray", "Of(ToArray(b)) has %d words, want %d (b without trailing zero words)", len(backTrim), trim)
	}
	for i := range backTrim {
		if backTrim[i] != c.Words[i] {
			return vk.Failf("of-toarray", "Of(ToArray(b))[%d] = %#x, want %#x", i, backTrim[i], c.Words[i])
		}
	}
	probe := func(p int32) *vk.Failure {
		inside := p >= 0 && int(p) < nbits
		var b uint64
		if inside {
			b = bitOf(c.Words, int(p))
		}
		var sg, sg1, g, g1 uint64
		if f := vk.TryF(func() string { return fmt.Sprintf("SafeGet/SafeGet1(%d) on %d words", p, len(words)) }, func() {
			sg, sg1 = bitmap.SafeGet(words, p), bitmap.SafeGet1(words, p)
		}); f != nil {
			f.Kind = "safeget-panic"
			return f
		}
		wantInPlace := b << (uint(p) & 63)
		if sg != wantInPlace || sg1 != b {
			return vk.Failf("safeget", "SafeGet/SafeGet1(bm of %d words, %d) = %#x/%d, want %#x/%d", len(words), p, sg, sg1, wantInPlace, b)
		}
		if inside {
			if f := vk.TryF(func() string { return fmt.Sprintf("Get/Get1(%d) on %d words", p, len(words)) }, func() { g, g1 = bitmap.Get(words, p), bitmap.Get1(words, p) }); f != nil {
				return f
			}
			if g != wantInPlace || g1 != b {
				return vk.Failf("get", "Get/Get1(bm of %d words, %d) = %#x/%d, want %#x/%d", len(words), p, g, g1, wantInPlace, b)
			}
		}
		return nil
	}
	for _, p := range []int32{-1, -63, -64, -65, math.MinInt32, math.MinInt32 + 63, int32(nbits), int32(nbits) + 1, int32(nbits) + 63, int32(nbits) + 64, math.MaxInt32, math.MaxInt32 - 63} {
		if f := probe(p); f != nil {
			return f
		}
	}
	for _, p := range c.Probes {
		if f := probe(p); f != nil {
			return f
		}
	}
	if nbits <= 512 {
		for p := 0; p < nbits; p++ {
			if f := probe(int32(p)); f != nil {
				return f
			}
		}
	} else {
		// a longer bitmap: the first and the last two words bit by bit, and up to 512 of its ones spread over the
		// whole length, each with the position after it (mostly a zero)
		for p := 0; p < 128; p++ {
			if f := probe(int32(p)); f != nil {
				return f
			}
			if f := probe(int32(nbits - 1 - p)); f != nil {
				return f
			}
		}
		step := len(want)/512 + 1
		for i := 0; i < len(want); i += step {
			if f := probe(want[i]); f != nil {
				return f
			}
			if q := want[i] + 1; int(q) < nbits {
				if f := probe(q); f != nil {
					return f
				}
			}
		}
	}
	for i := range words {
		if words[i] != c.Words[i] {
			return vk.Failf("mutates", "an inspection function modified word %d", i)
		}
	}
	// the three results belong to the caller: they are read again after the later cases (spare capacity overwritten)
	if len(arr) <= 1<<12 {
		watchList(fmt.Sprintf("ToArray(bitmap of %d words)", len(c.Words)), arr, want)
	}
	if len(back) <= 1<<12 {
		watchWords("Of(ToArray(b), 64*len(b))", back)
		watchWords("Of(ToArray(b))", backTrim)
	}
	return nil
}

// checkMaxBitmap: inspection of the largest bitmap whose positions fit an int32 (sparse oracle from its description).
func checkMaxBitmap(c Case) *vk.Failure {
	v := c.Max
	if v < 0 || v >= gen.MaxVariants {
		return nil
	}
	words := gen.UseMax(v)
	ps := append(gen.MaxProbes(), -1, -64, math.MinInt32, math.MinInt32+63)
	for _, p64 := range ps {
		p := int32(p64)
		var b uint64
		if p >= 0 {
			b = gen.MaxBit(p64)
		}
		wantInPlace := b << (uint(p) & 63)
		var sg, sg1, g, g1 uint64
		if f := vk.Try(fmt.Sprintf("SafeGet/SafeGet1(%d) on 2^25 words", p), func() {
			sg, sg1 = bitmap.SafeGet(words, p), bitmap.SafeGet1(words, p)
		}); f != nil {
			f.Kind = "safeget-panic"
			return f
		}
		if sg != wantInPlace || sg1 != b {
			return vk.Failf("safeget", "SafeGet/SafeGet1(2^25-word bitmap (description %d), %d) = %#x/%d, want %#x/%d", v, p, sg, sg1, wantInPlace, b)
		}
		if p >= 0 {
			if f := vk.Try(fmt.Sprintf("Get/Get1(%d) on 2^25 words", p), func() { g, g1 = bitmap.Get(words, p), bitmap.Get1(words, p) }); f != nil {
				return f
			}
			if g != wantInPlace || g1 != b {
				return vk.Failf("get", "Get/Get1(2^25-word bitmap (description %d), %d) = %#x/%d, want %#x/%d", v, p, g, g1, wantInPlace, b)
			}
		}
	}
	if c.ToArr || vk.Pick(false, true) { // bit by bit over 2^31 positions, 2 s: the quick tier for one description (ToArr), thorough for all
		want := gen.MaxOnes()
		var arr []int32
		if f := vk.Try("ToArray(2^25 words)", func() { arr = bitmap.ToArray(words) }); f != nil {
			return f
		}
		if len(arr) != len(want) {
			return vk.Failf("toarray", "ToArray(2^25-word bitmap (description %d)) has %d entries, want %d", v, len(arr), len(want))
		}
		for i := range arr {
			if int64(arr[i]) != want[i] {
				return vk.Failf("toarray", "ToArray(2^25-word bitmap (description %d))[%d] = %d, want %d", v, i, arr[i], want[i])
			}
		}
	}
	if k, bad := gen.MaxBitmapDamage(); bad {
		return vk.Failf("mutates", "an inspection function modified word %d of the 2^25-word bitmap", k)
	}
	return nil
}

func checkOfMany(c Case) *vk.Failure {
	if len(c.Subs) != len(c.Sizes) {
		return nil // a history is a sequence of (positions, size) pairs: anything else is outside the domain (never generated)
	}
	// no segment at all: the two (empty) arguments reach the library as nil or as empty non-nil slices
	var subs [][]int32
	var sizes []int32
	if len(c.Subs) > 0 || c.Shape&1 == 0 {
		subs = make([][]int32, len(c.Subs))
	}
	if len(c.Sizes) > 0 || c.Shape&2 == 0 {
		sizes = append(make([]int32, 0, len(c.Sizes)), c.Sizes...)
	}
	oks := make([]func() string, len(c.Subs))
	for i := range c.Subs {
		subs[i], oks[i] = shaped(c.Subs[i], shapeSel(c.Shape, i+1))
	}
	var got []uint64
	if f := vk.TryF(func() string { return fmt.Sprintf("OfMany(%s)", shortSubs(c.Subs, c.Sizes)) }, func() { got = bitmap.OfMany(subs, sizes) }); f != nil {
		return f
	}
	var all []int64
	base, maxbit := int64(0), int64(-1)
	for k := range c.Subs {
		for _, p := range c.Subs[k] {
			a := base + int64(p)
			all = append(all, a)
			if a > maxbit {
				maxbit = a
			}
		}
		base += int64(c.Sizes[k])
	}
	all, _ = sorted64(all)
	// "the bitmap Of would build from the shifted positions ... with enough words for every bit": the bits are compared
	// exactly (bitsMatch: the listed ones 1, every other bit of every returned word 0), the word count from below only.
	// The bitmap is the concatenation of segments of sizes[k] bits each, so its bits are 0 .. sum(sizes)-1 plus every
	// listed position beyond that, and each of them needs its word (the same reading as for Builder.Words below, where
	// Offset - that very sum - must be covered). The exact count - Of's, with the sum as n - is what the library returns
	// today; trailing zero words beyond it do not contradict the statement ("enough", and bitmaps are equal "up to
	// trailing zero words"), so no upper bound is asserted.
	need := base
	if maxbit+1 > need {
		need = maxbit + 1
	}
	if int64(len(got))*64 < need {
		return vk.Failf("ofmany-len", "OfMany(%s) has %d words, too few for the %d bits of its segments (sum of the sizes %d, highest listed bit %d)", shortSubs(c.Subs, c.Sizes), len(got), need, base, maxbit)
	}
	if p, ok := bitsMatch(got, all); !ok {
		return vk.Failf("ofmany-bits", "OfMany(%s): bit %d is wrong (words %s)", shortSubs(c.Subs, c.Sizes), p, short(got))
	}
	for i, ok := range oks {
		if msg := ok(); msg != "" {
			return vk.Failf("ofmany-mutates", "OfMany(%s), sub-list %d: %s", shortSubs(c.Subs, c.Sizes), i, msg)
		}
	}
	for i := range sizes {
		if sizes[i] != c.Sizes[i] {
			return vk.Failf("ofmany-mutates", "OfMany(%s): sizes[%d] was changed to %d", shortSubs(c.Subs, c.Sizes), i, sizes[i])
		}
	}
	if len(got) <= 1<<12 {
		watchWords("OfMany", got)
	}
	return nil
}

// builderRun is one Builder with its oracle (a sparse word model and the expected Offset) and the history it runs.
type builderRun struct {
	name     string // "" for the builder of the case, otherwise how the second one is named in messages
	prealloc int32
	steps    []Step
	shape    uint32
	b        *bitmap.Builder
	model    *wordModel
	offset   int64
	next     int
}

var errOutOfDomain = &vk.Failure{Kind: "out-of-domain"}

// verify compares Offset, the exact bits and the word count with the model.
// (when is built on failure only: verify runs after every step)
func (r *builderRun) verify(when func() string) *vk.Failure {
	if int64(r.b.Offset) != r.offset {
		return vk.Failf("builder-offset", "%s%s: Offset = %d, want %d", r.name, when(), r.b.Offset, r.offset)
	}
	if p, ok := r.model.diff(r.b.Words); !ok {
		return vk.Failf("builder-bits", "%s%s: bit %d is wrong (words %s)", r.name, when(), p, short(r.b.Words))
	}
	if int64(64*len(r.b.Words)) < r.offset || int64(64*len(r.b.Words)) < r.model.maxbit+1 {
		return vk.Failf("builder-words", "%s%s: %d words do not cover Offset %d / highest bit %d", r.name, when(), len(r.b.Words), r.offset, r.model.maxbit)
	}
	return nil
}

// step creates the builder if this is its first step, runs the next step of the history and compares.
func (r *builderRun) step() *vk.Failure {
	if r.b == nil {
		if f := vk.Try(r.name+"NewBuilder", func() { r.b = bitmap.NewBuilder(r.prealloc) }); f != nil {
			return f
		}
		r.model = newWordModel()
	}
	if r.next >= len(r.steps) {
		return nil
	}
	si := r.next
	s := r.steps[si]
	r.next++
	sel := shapeSel(r.shape, si)
	switch s.Kind {
	case "extend":
		pos, posOK := shaped(s.Positions, sel)
		if f := vk.TryF(func() string {
			return fmt.Sprintf("%sstep %d: Extend(%s, %d) at Offset %d", r.name, si, argList(s.Positions, sel), s.Size, r.offset)
		}, func() { r.b.Extend(pos, s.Size) }); f != nil {
			return f
		}
		if msg := posOK(); msg != "" {
			return vk.Failf("extend-mutates", "%sstep %d Extend(%s, %d): %s", r.name, si, shortList(s.Positions), s.Size, msg)
		}
		for _, p := range s.Positions {
			r.model.set(r.offset + int64(p))
		}
		r.offset += int64(s.Size)
	default:
		if s.Value != 0 && s.Value != 1 {
			return errOutOfDomain // a bit value is 0 or 1: anything else is outside the domain (never generated)
		}
		if f := vk.TryF(func() string { return fmt.Sprintf("%sstep %d: Set(%d, %d)", r.name, si, s.Pos, s.Value) }, func() { r.b.Set(s.Pos, s.Value) }); f != nil {
			return f
		}
		if s.Value == 1 {
			r.model.set(int64(s.Pos))
		}
		if r.offset <= int64(s.Pos) {
			r.offset = int64(s.Pos) + 1
		}
	}
	return r.verify(func() string { return fmt.Sprintf("after step %d (%s)", si, stepString(s, sel)) })
}

// keep puts the finished builder under watch: Words and Offset are read again after the later cases (which create
// and fill other builders).
func (r *builderRun) keep() {
	if r.b == nil || len(r.b.Words) > 1<<14 {
		return
	}
	n := len(r.steps)
	keepResult(func() string {
		if f := r.verify(func() string {
			return fmt.Sprintf("builder of an earlier case (%d steps, pre-sized %d), read again", n, r.prealloc)
		}); f != nil {
			return f.Msg
		}
		return ""
	})
}

// twinLimit: a second builder runs next to the one of the case unless either of them would grow beyond this many bits.
const twinLimit = 1 << 22

// twinHistory derives the history of the second builder (a pure function of the case): one Set of its own, then the steps
// of the case starting in the middle - so the two builders hold different bits at (almost) every moment. ok is false when
// the case has a step outside the domain or one of the two histories passes twinLimit.
func twinHistory(c Case) (prealloc int32, steps []Step, ok bool) {
	h := vk.Mix(uint64(len(c.Steps))*0x9e37 ^ uint64(uint32(c.Prealloc))<<20 ^ uint64(c.Shape)<<40)
	// always pre-sized: a replay evaluates the case twice, so whatever a pre-sized builder leaves behind in the library is
	// there for the second pass even when the history of the failing run did not fit into the file
	prealloc = []int32{64, max(c.Prealloc, 64), 4096, 192}[h&3]
	steps = append(steps, Step{Kind: "set", Pos: int32(1 + (h>>8)%127), Value: 1})
	n := len(c.Steps)
	for i := 0; i < n; i++ {
		steps = append(steps, c.Steps[(i+n/2)%n])
	}
	if c.Prealloc > twinLimit {
		return 0, nil, false
	}
	for _, hist := range [][]Step{c.Steps, steps} {
		off := int64(0)
		for _, s := range hist {
			if s.Kind == "extend" {
				if s.Size < 0 {
					return 0, nil, false
				}
				if len(s.Positions) > 0 {
					if last := s.Positions[len(s.Positions)-1]; last < 0 || off+int64(last) >= twinLimit {
						return 0, nil, false
					}
				}
				off += int64(s.Size)
			} else {
				if (s.Value != 0 && s.Value != 1) || s.Pos < 0 {
					return 0, nil, false
				}
				off = max(off, int64(s.Pos)+1)
			}
			if off > twinLimit {
				return 0, nil, false
			}
		}
	}
	return prealloc, steps, true
}

// checkBuilder runs the history of the case on one builder and, interleaved with it, a second history on a second
// builder (created before, between or after the steps of the first): after every step the builder that made it is
// compared with its model, and the other one is read again - a builder's Words and Offset are its own.
func checkBuilder(c Case) *vk.Failure {
	if c.Prealloc < 0 {
		return nil // a pre-sized builder has n >= 0 bits (never generated otherwise)
	}
	r1 := &builderRun{prealloc: c.Prealloc, steps: c.Steps, shape: c.Shape}
	var r2 *builderRun
	if p2, s2, ok := twinHistory(c); ok {
		r2 = &builderRun{name: "second builder alive at the same time: ", prealloc: p2, steps: s2, shape: c.Shape>>3 | 1}
	}
	if f := r1.step(); f != nil { // NewBuilder and the first step of the case
		if f == errOutOfDomain {
			return nil
		}
		return f
	}
	sched := vk.Mix(uint64(len(c.Steps))<<32 ^ uint64(c.Shape) ^ 0x7717)
	for round := 0; r1.next < len(r1.steps) || (r2 != nil && r2.next < len(r2.steps)); round++ {
		// which builder makes the next step: by a bit of the schedule (runs of steps on one builder occur), the other one
		// when its history is used up
		cur, other := r1, r2
		if r2 != nil && (r1.next >= len(r1.steps) || (r2.next < len(r2.steps) && sched>>(uint(round)%61)&1 == 1)) {
			cur, other = r2, r1
		}
		if f := cur.step(); f != nil {
			if f == errOutOfDomain {
				return nil
			}
			return f
		}
		if other != nil && other.b != nil {
			if f := other.verify(func() string {
				return fmt.Sprintf("read again after step %d of another builder (%s)", cur.next-1, stepString(cur.steps[cur.next-1], 0))
			}); f != nil {
				f.Kind = "builder-changed-by-another-builder"
				return f
			}
		}
	}
	r1.keep()
	if r2 != nil {
		r2.keep()
	}
	return nil
}

func stepString(s Step, sel int) string {
	if s.Kind == "extend" {
		return fmt.Sprintf("Extend(%s, %d)", argList(s.Positions, sel), s.Size)
	}
	return fmt.Sprintf("Set(%d, %d)", s.Pos, s.Value)
}

func check(c Case) *vk.Failure {
	switch c.Op {
	case "of":
		return checkOf(c)
	case "bitmap":
		return checkBitmap(c)
	case "ofmany":
		return checkOfMany(c)
	case "maxbitmap":
		return checkMaxBitmap(c)
	}
	return checkBuilder(c)
}

func classify(c Case) (bool, []string) {
	labels := []string{"op:" + c.Op}
	if c.Class != "" {
		labels = append(labels, "class:"+c.Class)
	}
	switch c.Op {
	case "of":
		n := len(c.Positions)
		nt := n >= 2 && c.Positions[n-1]/64 != c.Positions[0]/64
		if n == 0 {
			labels = append(labels, []string{"empty-list:spare-capacity", "empty-list:nil", "empty-list:no-capacity", "empty-list:nil"}[shapeSel(c.Shape, 0)])
		}
		if c.HasN {
			last := int32(-1)
			if n > 0 {
				last = c.Positions[n-1]
			}
			switch {
			case c.N < 0:
				labels = append(labels, "n:negative")
			case c.N <= last:
				labels = append(labels, "n:<=last")
			case c.N == last+1:
				labels = append(labels, "n:last+1")
			default:
				labels = append(labels, "n:larger")
			}
		} else {
			labels = append(labels, "n:absent")
		}
		return nt, labels
	case "maxbitmap":
		if c.ToArr {
			labels = append(labels, "toarray-of-2^25-words")
		}
		return true, labels
	case "bitmap":
		cnt, first, last := 0, -1, -1
		for wi, w := range c.Words {
			if w == 0 {
				continue
			}
			cnt += bits.OnesCount64(w)
			if first < 0 {
				first = 64*wi + bits.TrailingZeros64(w)
			}
			last = 64*wi + 63 - bits.LeadingZeros64(w)
		}
		if len(c.Words) == 0 && c.Shape != 0 {
			labels = append(labels, []string{"empty-bitmap:no-capacity", "empty-bitmap:nil"}[c.Shape&1])
		}
		if len(c.Words) > 12 {
			labels = append(labels, "bitmap-words:"+magnitude(int64(len(c.Words))))
		}
		return cnt >= 2 && first/64 != last/64, labels
	case "ofmany":
		over, cross := false, false
		base := int64(0)
		for k := range c.Subs {
			for _, p := range c.Subs[k] {
				if k < len(c.Sizes) && p >= c.Sizes[k] {
					over = true
				}
			}
			if base%64 != 0 {
				cross = true
			}
			if k < len(c.Sizes) {
				base += int64(c.Sizes[k])
			}
		}
		if over {
			labels = append(labels, "position>=size")
		}
		if len(c.Subs) == 0 {
			labels = append(labels, "no-segment")
		}
		labels = append(labels, "sum-of-sizes:"+magnitude(base))
		npos := 0
		for k := range c.Subs {
			npos += len(c.Subs[k])
		}
		if len(c.Subs) >= 1<<12 {
			labels = append(labels, "segment-count:"+magnitude(int64(len(c.Subs))))
		}
		if npos >= 1<<12 {
			labels = append(labels, "position-count:"+magnitude(int64(npos)))
		}
		return len(c.Subs) >= 2 && (over || cross), labels
	}
	segs, over, cross, sets := 0, false, false, 0
	off := int64(0)
	for _, s := range c.Steps {
		if s.Kind == "extend" {
			segs++
			for _, p := range s.Positions {
				if p >= s.Size {
					over = true
				}
			}
			if off%64 != 0 {
				cross = true
			}
			off += int64(s.Size)
		} else {
			sets++
			if off <= int64(s.Pos) {
				off = int64(s.Pos) + 1
			}
		}
	}
	if over {
		labels = append(labels, "position>=size")
	}
	if sets > 0 {
		labels = append(labels, "has-set")
	}
	labels = append(labels, "final-offset:"+magnitude(off))
	return segs >= 2 && (over || cross), labels
}

// magnitude names the size class of a sum / offset / length for the evidence histogram (4 octaves per class).
func magnitude(v int64) string {
	if v <= 0 {
		return "0"
	}
	k := (bits.Len64(uint64(v)) - 1) &^ 3
	return fmt.Sprintf("[2^%d,2^%d)", k, k+4)
}

// ---------------------------------------------------------------- generators

var boundaryPos = []int32{0, 1, 62, 63, 64, 65, 127, 128, 129, 191, 192, 255, 256}

// logU draws a size-like quantity whose MAGNITUDE is uniform, so that no octave between the small values and
// 2^maxBits is left out: 0 or 1, or a value of the octave [2^k, 2^(k+1)), k uniform in [0, maxBits); three times in
// eight one of 2^k-1, 2^k, 2^k+1.
func logU(t *rapid.T, maxBits int, label string) int64 {
	k := gen.Uniform(t, maxBits+1, label+".octave")
	if k == 0 {
		return int64(gen.Uniform(t, 2, label+".01"))
	}
	base := int64(1) << uint(k-1)
	switch gen.Uniform(t, 8, label+".edge") {
	case 0:
		return base - 1
	case 1:
		return base
	case 2:
		return base + 1
	}
	return base + int64(gen.U64(t, label+".in")%uint64(base))
}

func genAscending(t *rapid.T, maxN int, maxGap int, label string) []int32 {
	return genAscendingN(t, gen.Len(t, maxN, label+".n"), maxGap, 0, math.MaxInt32-1, label)
}

// genAscendingN draws n strictly ascending positions (fewer if limit is reached); wideBits > 0 adds gaps of
// log-uniform magnitude below 2^wideBits.
func genAscendingN(t *rapid.T, n int, maxGap int, wideBits int, limit int64, label string) []int32 {
	out := make([]int32, 0, n)
	cur := int64(-1)
	for i := 0; i < n; i++ {
		var gap int64
		switch gen.Uniform(t, 6, label+".gapclass") {
		case 0:
			gap = 1
		case 1:
			gap = 1 + int64(gen.Uniform(t, 3, label+".g"))
		case 2: // land on the next word boundary -1/0/+1
			nb := (cur/64+1)*64 + int64(gen.Uniform(t, 3, label+".b")) - 1
			gap = nb - cur
			if gap < 1 {
				gap = 1
			}
		case 3:
			gap = 1 + int64(gen.U64(t, label+".big")%uint64(maxGap))
		case 4:
			if wideBits > 0 {
				gap = 1 + logU(t, wideBits, label+".wide")
				break
			}
			fallthrough
		default:
			gap = 1 + int64(gen.Uniform(t, 70, label+".g"))
		}
		cur += gap
		if cur > limit {
			break
		}
		out = append(out, int32(cur))
	}
	return out
}

func genOf(t *rapid.T) Case {
	c := Case{Op: "of", Shape: uint32(gen.U64(t, "shape"))}
	switch gen.Uniform(t, 6, "pclass") {
	case 0:
		c.Class = "boundary-subset"
		for _, p := range boundaryPos {
			if gen.Chance(t, 1, 2, "pick") {
				c.Positions = append(c.Positions, p)
			}
		}
	case 1:
		c.Class = "runs" // runs of adjacent positions (a repeated position is not an ascending list: not generated)
		base := genAscending(t, 12, 200, "pos")
		last := int32(-1)
		for _, p := range base {
			for k := int32(0); k <= int32(gen.Uniform(t, 4, "run")); k++ {
				if q := p + k; q > last {
					c.Positions = append(c.Positions, q)
					last = q
				}
			}
		}
	case 2:
		c.Class = "large-gaps"
		c.Positions = genAscending(t, 20, 1<<20, "pos")
	case 3:
		// long lists: the number of positions has a log-uniform magnitude between the short random lists (<= 60) and the
		// grid's 65535; small gaps, so that the result stays a few thousand words
		c.Class = "long-list"
		n := 61 + int(logU(t, vk.Pick(12, 16), "count"))
		c.Positions = genAscendingN(t, n, 1+gen.Uniform(t, 100, "maxgap"), 0, math.MaxInt32-1, "pos")
	default:
		c.Class = "ascending"
		c.Positions = genAscending(t, 60, 300, "pos")
	}
	last := int64(-1)
	if n := len(c.Positions); n > 0 {
		last = int64(c.Positions[n-1])
	}
	switch gen.Uniform(t, 9, "nclass") {
	case 0:
	case 1:
		c.HasN, c.N = true, -1-int32(gen.U64(t, "neg")%1000)
	case 2:
		c.HasN, c.N = true, 0
	case 3:
		c.HasN, c.N = true, int32(max(last-int64(gen.Uniform(t, 70, "below")), 0))
	case 4:
		c.HasN, c.N = true, int32(last+1)
	case 5:
		c.HasN, c.N = true, int32(last+2)
	case 6:
		c.HasN, c.N = true, int32((last/64+1)*64+int64(gen.Uniform(t, 3, "b"))-1)
	case 7:
		c.HasN, c.N = true, int32(last+1+int64(gen.U64(t, "far")%100000))
	default:
		c.HasN, c.N = true, math.MinInt32
	}
	return c
}

// bigWords expands the description of a bitmap of n words (a pure function of its arguments); with tail the top bit
// of the last word is 1, so that the very end of the bitmap matters.
func bigWords(n int, key uint64, style int, tail bool) vk.Words {
	w := vk.Words(gen.BigSpec{N: n, Key: key, Style: style}.Expand())
	if tail && n > 0 {
		w[n-1] |= 1 << 63
	}
	return w
}

var bigStyles = []string{"big-uniform", "big-sparse", "big-dense", "big-islands", "big-ones", "big-one-bit-per-word"}

func genBitmap(t *rapid.T) Case {
	var w vk.Words
	var style string
	if gen.Chance(t, 1, 6, "big") {
		// 13 .. 4108 words (thorough 65548): the lengths between gen.Bitmap's 12 words and the grid's 4095 (the grid
		// itself sweeps the lengths up to 16383 words)
		n := 13 + int(logU(t, vk.Pick(12, 16), "words"))
		st := gen.Uniform(t, len(bigStyles), "bigstyle")
		w, style = bigWords(n, gen.U64(t, "key"), st, gen.Chance(t, 1, 2, "tail")), bigStyles[st]
	} else {
		var ws []uint64
		ws, style = gen.Bitmap(t, vk.Pick(12, 200), "bm")
		w = ws
	}
	nbits := 64 * len(w)
	var probes []int32
	for i := 0; i < 16; i++ {
		switch gen.Uniform(t, 4, "pclass") {
		case 0:
			probes = append(probes, int32(gen.U64(t, "any")))
		case 1:
			probes = append(probes, int32(nbits)+int32(gen.Uniform(t, 200, "over"))-100)
		case 2:
			if nbits > 0 { // the magnitude of the probe is uniform (a long bitmap is not only probed far from its start)
				probes = append(probes, int32(logU(t, 31, "mag")%int64(nbits)))
			}
		default:
			if nbits > 0 {
				probes = append(probes, int32(gen.Uniform(t, nbits, "in")))
			}
		}
	}
	return Case{Op: "bitmap", Words: w, Probes: probes, Class: style, Shape: uint32(gen.U64(t, "shape"))}
}

// genOfMany cuts one global ascending list of absolute positions into
// segments so that the concatenation of the shifted lists stays ascending
// (Of's documented input) while positions >= size still occur.
func genOfMany(t *rapid.T) Case {
	c := Case{Op: "ofmany", Shape: uint32(gen.U64(t, "shape"))}
	var nseg, nabs, wideBits int
	var sizeOf func() int32
	smallSize := func() int32 {
		switch gen.Uniform(t, 6, "sclass") {
		case 0:
			return 0
		case 1:
			return 64
		case 2:
			return int32(1 + gen.Uniform(t, 5, "s"))
		}
		return int32(gen.Uniform(t, 200, "s"))
	}
	switch gen.Uniform(t, 8, "segclass") {
	case 0:
		// no segment (the empty sequence of segments), or a single one
		c.Class = "segments:0-1"
		nseg, nabs, sizeOf = gen.Uniform(t, 2, "nseg01"), 5, smallSize
	case 1, 2:
		// segment sizes of log-uniform magnitude: the running sum takes values in every octave up to 2^27
		c.Class = "segments:wide"
		nseg, nabs, wideBits = 1+gen.Len(t, 11, "nseg"), gen.Len(t, vk.Pick(40, 200), "abs.n"), vk.Pick(24, 26)
		sizeOf = func() int32 {
			if gen.Chance(t, 1, 3, "small") {
				return smallSize() // element-wise mix: small and huge segments in one history
			}
			return int32(logU(t, wideBits, "size"))
		}
	case 3:
		// many small segments (offsets accumulated over many segments), now and then a larger one among them
		if gen.Chance(t, 1, 4, "beyond-2^16") {
			// counts of log-uniform magnitude up to 2^17 (thorough 2^18): segments with one position each, or positions in
			// one to three segments (content: a pure function of the drawn numbers, written out in the case)
			if gen.Chance(t, 1, 2, "which") {
				return ofManyCheap(1+int(logU(t, vk.Pick(17, 18), "nseg.huge")), gen.U64(t, "key"), "segments:one-position-each")
			}
			return ofManyTotal(8+int(logU(t, vk.Pick(17, 18), "npos.huge")), 1+gen.Uniform(t, 3, "nsegs"), 1+gen.Uniform(t, 3, "stride"), "positions:many")
		}
		c.Class = "segments:many"
		nseg = 13 + int(logU(t, vk.Pick(9, 12), "nseg"))
		nabs = int(logU(t, vk.Pick(10, 13), "nabs"))
		sizeOf = func() int32 {
			if gen.Chance(t, 1, 64, "large") {
				return int32(logU(t, 16, "size"))
			}
			return smallSize()
		}
	default:
		c.Class = "segments:few-small"
		nseg, nabs, sizeOf = 1+gen.Len(t, vk.Pick(11, 60), "nseg"), gen.Len(t, vk.Pick(40, 200), "abs.n"), smallSize
	}
	if nseg == 0 {
		return c
	}
	sizes := make([]int32, nseg)
	bases := make([]int64, nseg+1)
	for k := range sizes {
		sizes[k] = sizeOf()
		bases[k+1] = bases[k] + int64(sizes[k])
	}
	subs := make([][]int32, nseg)
	c.Subs, c.Sizes = subs, sizes
	// absolute positions: spread over the whole range of the segments (and a little beyond the sum of the sizes)
	total := bases[nseg]
	limit := min(total+int64(gen.Uniform(t, 300, "beyond")), math.MaxInt32-1)
	maxGap := 150
	if wideBits == 0 && nabs > 0 && total > int64(25*nabs) {
		maxGap = int(6 * total / int64(nabs))
	}
	abs := genAscendingN(t, nabs, maxGap, wideBits, limit, "abs")
	if gen.Chance(t, 1, 2, "tail") {
		// the end of the last segments is not left empty: up to three more positions just before / behind the sum of the sizes
		p := total - int64(gen.Uniform(t, 130, "tail.back"))
		if len(abs) > 0 && p <= int64(abs[len(abs)-1]) {
			p = int64(abs[len(abs)-1]) + 1
		}
		for j := 0; j < 3 && p >= 0 && p <= limit; j++ {
			abs = append(abs, int32(p))
			p += 1 + int64(gen.Uniform(t, 70, "tail.gap"))
		}
	}
	cur := 0
	for _, a := range abs {
		// the segment pointer may advance to any later segment whose base is <= a
		hi := cur
		for hi+1 < nseg && bases[hi+1] <= int64(a) {
			hi++
		}
		if bases[cur] > int64(a) {
			continue // cannot happen: bases[cur] <= previous position < a
		}
		var k int
		switch gen.Uniform(t, 3, "assign") {
		case 0:
			k = cur // stay: position may exceed this segment's size
		case 1:
			k = hi // natural owner
		default:
			k = cur + gen.Uniform(t, hi-cur+1, "k")
		}
		subs[k] = append(subs[k], int32(int64(a)-bases[k]))
		// collision: a position beyond its segment's size may be listed again by the segment that owns it
		// (the quantifier includes positions >= size; the bitmap is the union)
		if k < hi && gen.Chance(t, 1, 8, "collide") {
			subs[hi] = append(subs[hi], int32(int64(a)-bases[hi]))
			k = hi
		}
		cur = k
	}
	for k := range subs {
		if subs[k] == nil {
			subs[k] = []int32{}
		}
	}
	return c
}

func genBuilder(t *rapid.T) Case {
	c := Case{Op: "builder", Prealloc: rapid.SampledFrom([]int32{0, 64, 1000, 63, 65}).Draw(t, "prealloc"), Shape: uint32(gen.U64(t, "shape"))}
	n := 1 + gen.Len(t, vk.Pick(11, 200), "steps")
	wideBits, sparse := 0, 1 // a size / position of log-uniform magnitude below 2^wideBits is drawn once in `sparse` steps
	switch gen.Uniform(t, 8, "hclass") {
	case 0, 1:
		// sizes and Set positions of log-uniform magnitude: Offset takes values in every octave up to 2^23 (thorough 2^27)
		c.Class = "history:wide"
		wideBits = vk.Pick(20, 24)
		n = 1 + gen.Len(t, 11, "steps.wide")
		if gen.Chance(t, 1, 2, "presized") {
			c.Prealloc = int32(logU(t, wideBits+2, "prealloc.wide"))
		}
	case 2:
		// long histories: offsets accumulated over many small segments, now and then a large one among them
		c.Class = "history:long"
		n = 30 + int(logU(t, vk.Pick(8, 11), "steps.long")) + gen.Uniform(t, 60, "steps+")
		wideBits, sparse = 14, 40
	default:
		c.Class = "history:few-small"
	}
	offset := int64(0)
	for i := 0; i < n; i++ {
		wide := wideBits > 0 && gen.Uniform(t, sparse, "wide") == 0
		if gen.Chance(t, 1, 4, "set") {
			var pos int32
			switch gen.Uniform(t, 4, "posclass") {
			case 0:
				pos = int32(gen.Uniform(t, 130, "p"))
			case 1:
				pos = rapid.SampledFrom(boundaryPos).Draw(t, "pb")
			case 2:
				// around the current Offset: behind it, at it, ahead of it
				pos = int32(max(offset+int64(gen.Uniform(t, 200, "rel"))-70, 0))
			default:
				pos = int32(gen.Uniform(t, 3000, "p"))
				if wide {
					pos = int32(logU(t, wideBits, "pwide"))
				}
			}
			c.Steps = append(c.Steps, Step{Kind: "set", Pos: pos, Value: int32(gen.Uniform(t, 2, "value"))})
			if offset <= int64(pos) {
				offset = int64(pos) + 1
			}
			continue
		}
		var size int32
		switch gen.Uniform(t, 6, "sclass") {
		case 0:
			size = 0
		case 1:
			size = 64
		case 2:
			size = int32(1 + gen.Uniform(t, 5, "s"))
		default:
			size = int32(gen.Uniform(t, 200, "s"))
			if wide {
				size = int32(logU(t, wideBits, "swide"))
			}
		}
		var kept []int32
		if size < 300 {
			pos := genAscending(t, 8, 60, "pos")
			// keep positions near the segment: inside, or a little beyond size
			lim := int64(size) + int64(gen.Uniform(t, 80, "slack"))
			for _, p := range pos {
				if int64(p) <= lim {
					kept = append(kept, p)
				}
			}
		} else {
			// a large segment: positions at its start, anywhere inside, at its very end (size-1-d) and beyond it (size+d:
			// the first bits of what follows, positions >= size)
			cnt := gen.Len(t, 8, "pos.n")
			if gen.Chance(t, 1, 8, "longlist") {
				cnt = int(logU(t, vk.Pick(12, 14), "pos.long")) // (a long position list in one Extend)
			}
			seen := map[int32]bool{}
			for j := 0; j < cnt; j++ {
				var p int64
				switch gen.Uniform(t, 4, "where") {
				case 0:
					p = int64(gen.Uniform(t, 130, "lo"))
				case 1:
					p = int64(size) - 1 - int64(gen.Uniform(t, 130, "hi"))
				case 2:
					p = int64(size) + int64(gen.Uniform(t, 130, "over"))
				default:
					p = int64(gen.U64(t, "in") % uint64(size))
				}
				if p >= 0 && !seen[int32(p)] {
					seen[int32(p)] = true
					kept = append(kept, int32(p))
				}
			}
			sort.Slice(kept, func(i, j int) bool { return kept[i] < kept[j] })
		}
		c.Steps = append(c.Steps, Step{Kind: "extend", Positions: kept, Size: size})
		offset += int64(size)
	}
	return c
}

func genCase(t *rapid.T) Case {
	switch gen.Uniform(t, 6, "op") {
	case 0, 1:
		return genOf(t)
	case 2:
		return genBitmap(t)
	case 3:
		return genOfMany(t)
	}
	return genBuilder(t)
}

func TestRegress(t *testing.T) { checker.Regress(t) }

// between returns a value inside the octave (2^k, 2^(k+1)) that is a pure function of (k, i).
func between(k, i int) int64 {
	if k < 2 {
		return int64(1) << uint(k)
	}
	return int64(1)<<uint(k) + 1 + int64(vk.Mix(uint64(k)*1000+uint64(i))%uint64(int64(1)<<uint(k)-2))
}

// octave lists 2^k-1, 2^k, 2^k+1 and `extra` values inside (2^k, 2^(k+1)).
func octave(k, extra int) []int64 {
	vs := []int64{int64(1)<<uint(k) - 1, int64(1) << uint(k), int64(1)<<uint(k) + 1}
	for i := 0; i < extra; i++ {
		vs = append(vs, between(k, i))
	}
	return vs
}

// ofManyCheap: OfMany on nseg segments of 1..3 bits with one position each (the first and the last: 3 bits, positions 0
// and 2), a pure function of (nseg, key): the cheapest content with which the NUMBER of segments and the total number
// of positions can pass 2^16 (every segment's base depends on all sizes before it, every position lands on a bit of its own).
func ofManyCheap(nseg int, key uint64, class string) Case {
	c := Case{Op: "ofmany", Class: class, Shape: uint32(vk.Mix(key^uint64(nseg)) >> 11), Subs: make([][]int32, nseg), Sizes: make([]int32, nseg)}
	flat := make([]int32, nseg+2)
	for s := 0; s < nseg; s++ {
		h := vk.Mix(key + uint64(s)*0x9e3779b9)
		size := int32(1 + h%3)
		flat[s] = int32(h >> 8 % uint64(size))
		c.Subs[s], c.Sizes[s] = flat[s:s+1:s+1], size
	}
	c.Subs[0], c.Sizes[0] = []int32{0, 2}, 3
	if nseg > 1 {
		c.Subs[nseg-1], c.Sizes[nseg-1] = []int32{0, 2}, 3
	}
	return c
}

// ofManyTotal: OfMany on npos (>= 8) positions in total - ascending absolute positions j*stride + j%stride - cut into nsegs
// (1..3) segments; the segment behind a cut starts one bit before its first position (with adjacent positions the last
// position of the segment before the cut then equals that segment's size).
func ofManyTotal(npos, nsegs, stride int, class string) Case {
	c := Case{Op: "ofmany", Class: class, Shape: uint32(vk.Mix(uint64(npos)*8+uint64(nsegs)) >> 13)}
	abs := func(j int) int64 { return int64(j)*int64(stride) + int64(j%stride) }
	start, base := 0, int64(0)
	for k := 0; k < nsegs; k++ {
		end := npos
		if k+1 < nsegs {
			end = (k+1)*npos/nsegs + k
		}
		sub := make([]int32, 0, end-start)
		for j := start; j < end; j++ {
			sub = append(sub, int32(abs(j)-base))
		}
		next := abs(end-1) + 6 // the last segment: a few empty bits behind the last position
		if k+1 < nsegs {
			next = abs(end) - 1 // the next segment starts one bit before its first position
			if abs(end-1) > next {
				next = abs(end - 1)
			}
		}
		c.Subs, c.Sizes = append(c.Subs, sub), append(c.Sizes, int32(next-base))
		start, base = end, next
	}
	return c
}

// ofManySum: OfMany whose running sum is `sum` (>= 3) in front of the segment that holds most positions: three segments
// make up the sum (the first and the last bit of that range are set), then a segment of 70 bits with positions at its start,
// its end and beyond it, then an empty segment of 200 bits and one of 0 bits (words that only the sizes ask for).
func ofManySum(sum int64, i int, class string) Case {
	a := sum / 3
	b := int64(vk.Mix(uint64(sum)+uint64(i)) % uint64(sum-a+1))
	third := []int32{}
	if sum-a-b > 0 {
		third = []int32{int32(sum - a - b - 1)}
	}
	return Case{Op: "ofmany", Class: class, Shape: uint32(vk.Mix(uint64(sum)) >> 7),
		Subs:  [][]int32{{0}, {}, third, {0, 5, 69, 70, 133}, {}, {}},
		Sizes: []int32{int32(a), int32(b), int32(sum - a - b), 70, 200, 0}}
}

// builderSize: a history around one large segment of `size` bits: a small segment first (so that Offset is not word
// aligned), the large one with positions at its start, inside, at its very end and beyond it, Set behind / ahead of
// Offset, an empty large segment, and positions after that.
func builderSize(size int64, i int, prealloc int32, class string) Case {
	s := int32(size)
	in := int32(vk.Mix(uint64(size)*7+uint64(i)) % uint64(size))
	pos := []int32{0, in, s - 1, s, s + 64}
	sort.Slice(pos, func(i, j int) bool { return pos[i] < pos[j] })
	var uniq []int32
	for j, p := range pos {
		if j == 0 || p != pos[j-1] {
			uniq = append(uniq, p)
		}
	}
	off := int64(37) + size
	return Case{Op: "builder", Class: class, Prealloc: prealloc, Shape: uint32(vk.Mix(uint64(size)) >> 9), Steps: []Step{
		{Kind: "extend", Positions: []int32{3, 36}, Size: 37},
		{Kind: "extend", Positions: uniq, Size: s},
		{Kind: "set", Pos: int32(off - 2), Value: 1},
		{Kind: "set", Pos: int32(off + 70), Value: 0},
		{Kind: "set", Pos: int32(off + 200), Value: 1},
		{Kind: "extend", Positions: nil, Size: s},
		{Kind: "extend", Positions: []int32{1, 63, 64}, Size: 3},
		{Kind: "set", Pos: in, Value: 1},
	}}
}

func TestGrid(t *testing.T) {
	vk.SetPhase("grid")
	pool := []int32{0, 1, 62, 63, 64, 65, 127, 128}
	for sub := 0; sub < 1<<len(pool); sub++ {
		var pos []int32
		for i, p := range pool {
			if sub>>uint(i)&1 == 1 {
				pos = append(pos, p)
			}
		}
		sort.Slice(pos, func(i, j int) bool { return pos[i] < pos[j] })
		checker.Run(t, Case{Op: "of", Positions: pos, Class: "grid"})
		for _, n := range []int32{math.MinInt32, -1, 0, 1, 63, 64, 65, 128, 129, 130, 192, 1000} {
			checker.Run(t, Case{Op: "of", Positions: pos, HasN: true, N: n, Class: "grid"})
		}
	}
	// the empty list and the empty bitmap in every shape (nil, empty with and without capacity); no segment; no step
	for shape := uint32(0); shape < 4; shape++ {
		checker.Run(t, Case{Op: "of", Shape: shape, Class: "grid-empty"})
		for _, n := range []int32{math.MinInt32, -1, 0, 1, 64, 65, 1000, 65537} {
			checker.Run(t, Case{Op: "of", HasN: true, N: n, Shape: shape, Class: "grid-empty"})
		}
		checker.Run(t, Case{Op: "bitmap", Shape: shape, Class: "grid-empty"})
		checker.Run(t, Case{Op: "ofmany", Shape: shape, Class: "grid-no-segment"})
		checker.Run(t, Case{Op: "builder", Prealloc: int32(shape) * 32, Class: "grid-no-step"})
	}
	for shape := uint32(1); shape <= 64; shape++ { // segments without positions: nil / empty sub-lists mixed, sizes that alone ask for words
		checker.Run(t, Case{Op: "ofmany", Subs: [][]int32{{}, {}}, Sizes: []int32{int32(shape), 64}, Shape: shape, Class: "grid-empty-segments"})
		checker.Run(t, Case{Op: "ofmany", Subs: [][]int32{{1}, {}, {}}, Sizes: []int32{64, int32(shape), 0}, Shape: shape, Class: "grid-empty-segments"})
		checker.Run(t, Case{Op: "ofmany", Subs: [][]int32{{}}, Sizes: []int32{int32(shape)}, Shape: shape, Class: "grid-empty-segments"})
	}
	// long lists and bitmaps (size thresholds)
	for _, n := range []int{65535, 65536, 65537, 200001} {
		for _, stride := range []int{1, 3, 64, 129} {
			pos := make([]int32, n)
			for i := range pos {
				pos[i] = int32(i*stride + i%stride)
			}
			checker.Run(t, Case{Op: "of", Positions: pos, Class: "grid-long"})
			checker.Run(t, Case{Op: "of", Positions: pos, HasN: true, N: pos[n-1] + 70, Class: "grid-long"})
		}
		w := make(vk.Words, n/16)
		for i := range w {
			w[i] = vk.Mix(uint64(i)+uint64(n)) & vk.Mix(uint64(i)*3)
		}
		runB := func() {
			checker.Run(t, Case{Op: "bitmap", Words: w, Probes: []int32{0, int32(64*len(w)) - 1, 65536, 65535}, Class: "grid-long"})
		}
		if n >= 65537 {
			vk.ProcsSweep(runB) // (4096 and 12500 words: under every scheduler width of the procs process)
		} else {
			runB()
		}
	}
	// list lengths and bitmap lengths without holes: 2^k-1, 2^k, 2^k+1 and two lengths inside every octave, the last
	// word always occupied; from 128 elements on the first length inside the octave under every scheduler width of the procs process
	for k := 3; k <= 14; k++ {
		for i, n := range octave(k, 2) {
			stride := []int{1, 2, 7, 64, 65}[(k+i)%5]
			pos := make([]int32, n)
			for j := range pos {
				pos[j] = int32(j*stride + j%stride)
			}
			run := func() {
				checker.Run(t, Case{Op: "of", Positions: pos, Class: "grid-list-length"})
				checker.Run(t, Case{Op: "of", Positions: pos, HasN: true, N: pos[n-1] + int32(1+i*32), Class: "grid-list-length"})
			}
			if n >= 128 && i == 3 {
				vk.ProcsSweep(run)
			} else {
				run()
			}
			if k <= 13 {
				w := bigWords(int(n), uint64(n), (k+i)%len(bigStyles), true)
				nb := int32(64 * n)
				runB := func() {
					checker.Run(t, Case{Op: "bitmap", Words: w, Probes: []int32{nb - 1, nb - 64, nb - 65, nb / 2, nb/2 + 63, nb / 3}, Class: "grid-bitmap-length"})
				}
				if n >= 128 && i == 3 && k <= 12 {
					vk.ProcsSweep(runB)
				} else {
					runB()
				}
			}
		}
	}
	// OfMany on every pair of segments over positions 0..3 (sizes 0..3 / 4), including positions >= size that
	// collide with a position of the next segment; the rebased list stays non-decreasing (Of's input contract)
	for size0 := int32(0); size0 <= 3; size0++ {
		for a := 0; a < 16; a++ {
			for b := 0; b < 16; b++ {
				var pa, pb []int32
				for p := int32(0); p < 4; p++ {
					if a>>uint(p)&1 == 1 {
						pa = append(pa, p)
					}
					if b>>uint(p)&1 == 1 {
						pb = append(pb, p)
					}
				}
				if len(pa) > 0 && len(pb) > 0 && pa[len(pa)-1] > size0+pb[0] {
					continue
				}
				checker.Run(t, Case{Op: "ofmany", Subs: [][]int32{pa, pb}, Sizes: []int32{size0, 4}, Class: "grid-two-segments"})
			}
		}
	}
	// OfMany: the running sum in every octave up to 2^25 (2^26 .. 2^29: TestLast, the results are 8 .. 64 MiB)
	for k := 2; k <= 25; k++ {
		for i, sum := range octave(k, 2) {
			checker.Run(t, ofManySum(sum, i, "grid-running-sum"))
		}
	}
	// OfMany: the number of segments in every octave up to 2^13 (sizes 0..4, a position in three non-empty segments out
	// of four, now and then the first bit of the next segment too); from 128 segments on the length inside the octave under
	// every scheduler width
	for k := 1; k <= 13; k++ {
		for i, nseg := range octave(k, 1) {
			c := Case{Op: "ofmany", Class: "grid-segment-count", Shape: uint32(nseg)}
			for s := 0; s < int(nseg); s++ {
				h := vk.Mix(uint64(nseg)<<16 + uint64(s))
				size := int32(h % 5)
				sub := []int32{}
				if size > 0 && h>>8&3 != 0 {
					sub = append(sub, int32(h>>16&0xffff)%size)
					if h>>32&7 == 0 {
						sub = append(sub, size)
					}
				}
				c.Subs, c.Sizes = append(c.Subs, sub), append(c.Sizes, size)
			}
			c.Subs[nseg-1], c.Sizes[nseg-1] = []int32{0, 2}, 3
			if nseg >= 128 && i == 3 {
				vk.ProcsSweep(func() { checker.Run(t, c) })
			} else {
				checker.Run(t, c)
			}
		}
	}
	// Builder: one large segment / one far Set position in every octave up to 2^24 (fresh and pre-sized builders)
	for k := 3; k <= 24; k++ {
		extra := 2
		if k > 20 {
			extra = 0
		}
		for i, size := range octave(k, extra) {
			prealloc := []int32{0, 64, int32(size), int32(size + 37), int32(2*size + 500)}[(k+i)%5]
			checker.Run(t, builderSize(size, i, prealloc, "grid-segment-size"))
			checker.Run(t, Case{Op: "builder", Class: "grid-set-position", Prealloc: []int32{0, int32(size)}[i%2], Steps: []Step{
				{Kind: "set", Pos: int32(size), Value: 1}, {Kind: "set", Pos: int32(size - 1), Value: int32(i & 1)}, {Kind: "set", Pos: 0, Value: 1},
				{Kind: "extend", Positions: []int32{0, 63}, Size: 1}, {Kind: "set", Pos: int32(size + 65), Value: 1}}})
		}
	}
	// Builder: the number of steps in every octave up to 2^12 (each Extend adds 0..4 bits, every fourth step is a Set
	// just behind / at / ahead of Offset)
	for k := 4; k <= 12; k++ {
		for i, n := range octave(k, 1) {
			c := Case{Op: "builder", Class: "grid-step-count", Prealloc: []int32{0, 1000}[i%2], Shape: uint32(n)}
			off := int64(0)
			for s := 0; s < int(n); s++ {
				h := vk.Mix(uint64(n)<<16 + uint64(s))
				if s%4 == 3 {
					p := max(off+int64(h%5)-2, 0)
					c.Steps = append(c.Steps, Step{Kind: "set", Pos: int32(p), Value: int32(h >> 8 & 1)})
					off = max(off, p+1)
					continue
				}
				size := int32(h % 5)
				var pos []int32
				if h>>8&1 == 1 {
					pos = append(pos, int32(h>>16&0xffff)%(size+1))
				}
				c.Steps = append(c.Steps, Step{Kind: "extend", Positions: pos, Size: size})
				off += int64(size)
			}
			checker.Run(t, c)
		}
	}
	// OfMany beyond 2^16: the number of segments in the octaves 2^14 .. 2^17 (one position per segment, sizes 1..3), and
	// the total number of positions 2^k-1, 2^k, 2^k+1, 2^k+64 and one value inside, 14 <= k <= 16, in one and in three segments;
	// 2^17+1 of either
	// (at the end of the grid: these case files are large, and the history written with a failure has a size budget)
	for k := 14; k <= 17; k++ {
		counts, totals := append(octave(k, 1), int64(1)<<uint(k)+4), append(octave(k, 1), int64(1)<<uint(k)+64)
		if k == 17 {
			counts, totals = counts[2:3], totals[2:3] // (2^17+1 alone: the octave above it belongs to the thorough tier's random classes)
		}
		for i, nseg := range counts {
			checker.Run(t, ofManyCheap(int(nseg), uint64(k*16+i), "grid-segment-count"))
		}
		for i, npos := range totals {
			checker.Run(t, ofManyTotal(int(npos), 1, 1+(k+i)%3, "grid-position-count"))
			checker.Run(t, ofManyTotal(int(npos), 3, 1+(k+i+1)%3, "grid-position-count"))
		}
	}
	vk.MarkExhaustive("Of on all subsets of {0,1,62,63,64,65,127,128} x n in {absent, MinInt32, -1, 0, 1, 63, 64, 65, 128, 129, 130, 192, 1000}")
}

func TestProp(t *testing.T) { checker.Prop(t, genCase) }

func FuzzProp(f *testing.F) { checker.Fuzz(f, genCase) }

// TestLast runs at the very end of the process: huge inputs (the maximum bitmap / string) and the regression cases of that size come last, so that
// what they leave behind in the library cannot mask anything the ordinary cases would have met.
func TestLast(t *testing.T) {
	vk.SetPhase("last")
	// the octaves between the grid and the top: last position of Of 2^25 .. 2^30, running sum of OfMany 2^26 .. 2^29
	for k := 25; k <= 30; k++ {
		for i, v := range []int64{int64(1)<<uint(k) - 1, int64(1) << uint(k), between(k, 0)} {
			p := int32(v)
			c := Case{Op: "of", Positions: []int32{3, p / 2, p - 64, p}, Class: "grid-last-position"}
			if i%2 == 1 {
				c.HasN, c.N = true, p+int32(i)*33
			}
			checker.Run(t, c)
		}
	}
	for k := 26; k <= 29; k++ {
		checker.Run(t, ofManySum([]int64{int64(1)<<uint(k) + 1, between(k, 0)}[k%2], k, "grid-running-sum"))
	}
	// the top of the int32 range: results of exactly 2^25 words (untouched pages cost nothing)
	top := int32(math.MaxInt32)
	for _, c := range []Case{
		{Op: "of", Positions: []int32{3, top}},
		{Op: "of", Positions: []int32{top}},
		{Op: "of", Positions: []int32{0, top - 64, top - 1, top}},
		{Op: "of", Positions: []int32{top - 1}},
		{Op: "of", Positions: []int32{top - 63}},
		{Op: "of", Positions: []int32{top - 64}},
		{Op: "of", Positions: nil, HasN: true, N: top},
		{Op: "of", Positions: []int32{3}, HasN: true, N: top - 62},
		{Op: "of", Positions: []int32{3}, HasN: true, N: top - 63},
		{Op: "of", Positions: []int32{5, 1 << 30, top}, HasN: true, N: top},
		{Op: "of", Positions: []int32{5, 1 << 30, top - 1}, HasN: true, N: top},
		{Op: "ofmany", Subs: [][]int32{{1}, {5}}, Sizes: []int32{1 << 30, 1<<30 - 1}},
		{Op: "ofmany", Subs: [][]int32{{1}, {5, 1<<30 - 1}, {}}, Sizes: []int32{1 << 30, 1 << 29, 1<<29 - 1}},
		{Op: "ofmany", Subs: [][]int32{{0}, {1<<30 - 2}}, Sizes: []int32{1<<30 + 1, 1<<30 - 2}},
		{Op: "ofmany", Subs: [][]int32{{0}, {}, {}}, Sizes: []int32{1, 1 << 30, 1<<30 - 2}}, // (the words exist for the sizes alone)
	} {
		c.Class = "grid-top-of-int32"
		checker.Run(t, c)
	}
	// a Builder history whose Offset ends at 2^31-1, on a pre-sized builder (the words are appended within the capacity
	// but for the last one); thorough also from an empty builder (2^25 appends that reallocate again and again: seconds).
	// The last step sets the very last position an int32 holds, 2^31-1, with size 0 (Offset stays 2^31-1): Of([2^31-1])
	// builds that bitmap, so Extend must as well (it did not: end = Offset + last + 1 wrapped in int32; /repo 13ff612).
	topSteps := []Step{
		{Kind: "extend", Positions: []int32{1, 1<<30 - 1, 1 << 30}, Size: 1 << 30},
		{Kind: "extend", Positions: []int32{5, 1<<30 - 10}, Size: 1<<30 - 8}, // Offset 2^31-8
		{Kind: "extend", Positions: []int32{0, 6}, Size: 3},                  // bits 2^31-8 and 2^31-2; Offset 2^31-5
		{Kind: "set", Pos: top - 3, Value: 1},                                // Offset 2^31-3
		{Kind: "extend", Positions: []int32{0}, Size: 2},                     // Offset 2^31-1
		{Kind: "set", Pos: top - 2, Value: 0},
		{Kind: "extend", Positions: []int32{0}, Size: 0}, // bit 2^31-1
	}
	checker.Run(t, Case{Op: "builder", Prealloc: top, Steps: topSteps, Class: "grid-top-of-int32"})
	if vk.Thorough() {
		checker.Run(t, Case{Op: "builder", Prealloc: 0, Steps: topSteps, Class: "grid-top-of-int32"})
	}
	for v := 0; v < gen.MaxVariants; v++ {
		// ToArray of the maximum bitmap takes 2 s: the quick tier runs it on the description whose very last bit is set
		checker.Run(t, Case{Op: "maxbitmap", Max: v, ToArr: v == 2, Class: "grid-maximum"})
	}
	checker.RegressLast(t)
}

package gen

// BorrowMaxC01 hands the process-wide 2^25-word array (see UseMax) to a caller that fills it with content
// of its own (C01: dense bitmaps of the maximum size, whose 1-bit count reaches 2^31-1). No description is
// installed while it is borrowed: the array comes back all zero, and the caller must give it back with
// ReturnMaxC01 before anybody calls UseMax again.
func BorrowMaxC01() []uint64 {
	if maxBM == nil {
		maxBM = make([]uint64, MaxWords)
	}
	if maxCur >= 0 {
		for k := range maxVariants[maxCur] {
			maxBM[k] = 0
		}
	}
	maxCur, maxSet = -1, nil
	return maxBM
}

// ReturnMaxC01 zeroes the borrowed array again (all of it).
func ReturnMaxC01() {
	if maxBM == nil {
		return
	}
	clear(maxBM)
	maxCur, maxSet = -1, nil
}

package gen

import (
	"sort"
	"unsafe"
)

// (C08) A second string of MaxStrLen bytes that equals the maximum string except for ONE flipped bit,
// so that comparisons of two 2^28-byte strings meet a difference at word indexes beyond int32.

var maxTwinBuf []byte
var maxTwinFlip int64 = -1

// MaxStringTwin returns a process-wide string of exactly MaxStrLen bytes that equals the maximum string
// (by its description) except that bit flipBit (most significant bit of each byte first, counted from the
// start) is inverted; flipBit < 0 gives an exact twin. The memory is private to the twin (not shared with
// MaxString) and is re-used by the next call: a string returned earlier must not be used any more.
// Almost all of it stays untouched zero pages.
func MaxStringTwin(flipBit int64) string {
	if maxTwinBuf == nil {
		maxTwinBuf = make([]byte, MaxStrLen)
		for k, v := range maxStrSet {
			maxTwinBuf[k] = v
		}
	}
	if maxTwinFlip >= 0 { // undo the previous flip: back to the description
		maxTwinBuf[maxTwinFlip/8] = maxStrSet[int(maxTwinFlip/8)]
		maxTwinFlip = -1
	}
	if flipBit >= 0 && flipBit < 8*MaxStrLen {
		maxTwinBuf[flipBit/8] ^= 0x80 >> uint(flipBit%8)
		maxTwinFlip = flipBit
	}
	return unsafe.String(&maxTwinBuf[0], MaxStrLen)
}

// MaxTwinDamage reports a byte of the twin that matches neither the description nor the current flip.
func MaxTwinDamage() (int, bool) {
	if maxTwinBuf == nil {
		return 0, false
	}
	want := func(j int) byte {
		v := maxStrSet[j]
		if maxTwinFlip >= 0 && int(maxTwinFlip/8) == j {
			v ^= 0x80 >> uint(maxTwinFlip%8)
		}
		return v
	}
	ks := make([]int, 0, len(maxStrSet))
	for k := range maxStrSet {
		ks = append(ks, k)
	}
	sort.Ints(ks)
	for _, k := range ks {
		for d := -1; d <= 1; d++ {
			if j := k + d; j >= 0 && j < MaxStrLen && maxTwinBuf[j] != want(j) {
				return j, true
			}
		}
	}
	if maxTwinFlip >= 0 {
		if j := int(maxTwinFlip / 8); maxTwinBuf[j] != want(j) {
			return j, true
		}
	}
	for j := 5; j < MaxStrLen; j += 1 << 19 {
		if maxTwinBuf[j] != want(j) {
			return j, true
		}
	}
	return 0, false
}

package gen

import (
	"runtime/debug"
	"sort"
	"unsafe"
)

// (C08) Second strings of MaxStrLen bytes that equal the maximum string except for ONE flipped bit,
// so that comparisons of two 2^28-byte strings meet a difference at word indexes beyond int32.
//
// Go strings are immutable: a correct library may remember a string by its data pointer and length.
// Therefore every twin is a string OF ITS OWN: its memory is written once, before the string is handed
// out for the first time, and never again. The same flipBit gives the same string (same memory) again.

type maxTwin struct {
	flip int64  // the inverted bit (< 0: none)
	buf  []byte // private memory of this twin; never written after construction
	used int64  // last use (for dropping the least recently used one)
}

// maxTwinsAlive bounds the memory: 5 twins + the maximum string itself = 1.5 GiB of address space (almost all of it
// untouched zero pages). A quick / thorough run uses five different flips, so nothing is dropped there.
const maxTwinsAlive = 5

var maxTwins []*maxTwin
var maxTwinClock int64

// MaxStringTwin returns a string of exactly MaxStrLen bytes that equals the maximum string (by its
// description) except that bit flipBit (most significant bit of each byte first, counted from the start) is
// inverted; flipBit < 0 (or beyond the string) gives an exact twin. The memory is private to this twin
// (shared neither with MaxString nor with the twin of another flipBit) and is never modified once the
// string exists. When more than maxTwinsAlive different twins have been asked for, the least recently used
// one is dropped (left to the garbage collector, not rewritten: a string that somebody still holds stays valid).
func MaxStringTwin(flipBit int64) string {
	if flipBit < 0 || flipBit >= 8*MaxStrLen {
		flipBit = -1
	}
	maxTwinClock++
	for _, t := range maxTwins {
		if t.flip == flipBit {
			t.used = maxTwinClock
			return unsafe.String(&t.buf[0], MaxStrLen)
		}
	}
	if len(maxTwins) >= maxTwinsAlive {
		lru := 0
		for i, t := range maxTwins {
			if t.used < maxTwins[lru].used {
				lru = i
			}
		}
		maxTwins = append(maxTwins[:lru:lru], maxTwins[lru+1:]...)
		debug.FreeOSMemory() // the dropped 256 MiB go back before the next 256 MiB are taken
	}
	t := &maxTwin{flip: flipBit, buf: make([]byte, MaxStrLen), used: maxTwinClock}
	for k, v := range maxStrSet {
		t.buf[k] = v
	}
	if flipBit >= 0 {
		t.buf[flipBit/8] ^= 0x80 >> uint(flipBit%8)
	}
	maxTwins = append(maxTwins, t)
	return unsafe.String(&t.buf[0], MaxStrLen)
}

func (t *maxTwin) want(j int) byte {
	v := maxStrSet[j]
	if t.flip >= 0 && int(t.flip/8) == j {
		v ^= 0x80 >> uint(t.flip%8)
	}
	return v
}

// MaxTwinDamage reports a byte of a twin that is alive and matches neither the description nor its flip.
func MaxTwinDamage() (int, bool) {
	if len(maxTwins) == 0 {
		return 0, false
	}
	ks := make([]int, 0, len(maxStrSet))
	for k := range maxStrSet {
		ks = append(ks, k)
	}
	sort.Ints(ks)
	for _, t := range maxTwins {
		for _, k := range ks {
			for d := -1; d <= 1; d++ {
				if j := k + d; j >= 0 && j < MaxStrLen && t.buf[j] != t.want(j) {
					return j, true
				}
			}
		}
		if t.flip >= 0 {
			if j := int(t.flip / 8); t.buf[j] != t.want(j) {
				return j, true
			}
		}
		for j := 5; j < MaxStrLen; j += 1 << 19 {
			if t.buf[j] != t.want(j) {
				return j, true
			}
		}
	}
	return 0, false
}

package gen

import "sort"

// MaxWords is the largest bitmap whose bit positions still fit an int32: 2^25 words = 2^31 bits.
const MaxWords = 1 << 25

// MaxTop is the largest bit position an int32 holds (the last bit of the maximum bitmap).
const MaxTop = int64(1)<<31 - 1

// maxVariants describe the only non-zero words of the maximum bitmap (index -> word).
//
//	variant 0: ones in the first, a middle and the last three words; bit 2^31-1 itself is 0, bit 2^31-2 is 1
//	variant 1: the last three words are empty (a scan that finds nothing runs off the end of the bitmap)
var maxVariants = []map[int]uint64{
	{
		0:            0x8000000000000001,
		1:            ^uint64(0),
		4097:         0xf0f0,
		1 << 24:      1<<63 | 1,
		MaxWords - 3: 1 << 63,
		MaxWords - 2: 0x5,
		MaxWords - 1: 0x4000000000000100,
	},
	{
		0:            1 << 63,
		5:            0xff00,
		1 << 24:      1,
		MaxWords - 4: 1,
	},
	{ // the very last bit is set
		0:            0x6,
		MaxWords - 2: 1 << 63,
		MaxWords - 1: 1<<63 | 1<<62 | 1,
	},
}

// MaxVariants is the number of descriptions.
const MaxVariants = 3

var (
	maxBM  []uint64
	maxCur = -1
	maxSet map[int]uint64
)

// UseMax returns the process-wide bitmap of exactly 2^25 words (256 MiB, almost all of it untouched
// zero pages) holding description v. It is shared: callers must check MaxBitmapDamage afterwards and
// must not keep it across a UseMax with another v.
func UseMax(v int) []uint64 {
	if maxBM == nil {
		maxBM = make([]uint64, MaxWords)
	}
	if v != maxCur {
		if maxCur >= 0 {
			for k := range maxVariants[maxCur] {
				maxBM[k] = 0
			}
		}
		for k, w := range maxVariants[v] {
			maxBM[k] = w
		}
		maxCur, maxSet = v, maxVariants[v]
	}
	return maxBM
}

// MaxBitmap is UseMax(0).
func MaxBitmap() []uint64 { return UseMax(0) }

// MaxSetWords lists the indexes of the non-zero words of the current description in ascending order.
func MaxSetWords() []int {
	ks := make([]int, 0, len(maxSet))
	for k := range maxSet {
		ks = append(ks, k)
	}
	sort.Ints(ks)
	return ks
}

// MaxWord returns word k of the current description without touching the shared array.
func MaxWord(k int) uint64 { return maxSet[k] }

// MaxBit returns bit i of the current description (not read from the array).
func MaxBit(i int64) uint64 { return maxSet[int(i/64)] >> (uint64(i) % 64) & 1 }

// MaxOnes lists every set position of the current description in ascending order.
func MaxOnes() []int64 {
	var ps []int64
	for _, k := range MaxSetWords() {
		for b := 0; b < 64; b++ {
			if maxSet[k]>>uint(b)&1 == 1 {
				ps = append(ps, int64(k)*64+int64(b))
			}
		}
	}
	return ps
}

// MaxRank counts the ones before position i (from the description).
func MaxRank(i int64) int64 {
	n := int64(0)
	for _, p := range MaxOnes() {
		if p < i {
			n++
		}
	}
	return n
}

// MaxNext is the smallest set position in [i, end), or -1 (from the description).
func MaxNext(i, end int64) int64 {
	for _, p := range MaxOnes() {
		if p >= i && p < end {
			return p
		}
	}
	return -1
}

// MaxPrev is the largest set position in [i, end), or -1 (from the description).
func MaxPrev(i, end int64) int64 {
	r := int64(-1)
	for _, p := range MaxOnes() {
		if p >= i && p < end {
			r = p
		}
	}
	return r
}

// MaxSlice is the bitmap of ceil((to-from)/64) words holding bits [from, to) of the description,
// as a sparse map word index -> word (absent words are 0).
func MaxSlice(from, to int64) (nwords int64, set map[int64]uint64) {
	set = map[int64]uint64{}
	for _, p := range MaxOnes() {
		if p >= from && p < to {
			j := p - from
			set[j/64] |= 1 << uint64(j%64)
		}
	}
	return (to - from + 63) / 64, set
}

// MaxBitmapDamage reports a word of the shared array that no longer matches the description
// (set words, their neighbours and a sample of others are compared; full says compare every word).
func MaxBitmapDamage(full ...bool) (int, bool) {
	if maxBM == nil || maxCur < 0 {
		return 0, false
	}
	if len(full) > 0 && full[0] {
		for j, w := range maxBM {
			if w != 0 && w != maxSet[j] {
				return j, true
			}
		}
	}
	for k, v := range maxSet {
		if maxBM[k] != v {
			return k, true
		}
		for _, d := range []int{-1, 1} {
			if j := k + d; j >= 0 && j < MaxWords && maxBM[j] != maxSet[j] {
				return j, true
			}
		}
	}
	for j := 7; j < MaxWords; j += 1 << 16 {
		if maxBM[j] != maxSet[j] {
			return j, true
		}
	}
	return 0, false
}

// MaxProbes are bit positions worth probing on the maximum bitmap (current description).
func MaxProbes() []int64 {
	ps := []int64{0, 1, 63, 64, 1 << 30, MaxTop, MaxTop - 1, MaxTop - 63, MaxTop - 64, MaxTop - 127}
	for k := range maxSet {
		for _, d := range []int64{-1, 0, 1, 8, 31, 62, 63, 64} {
			if p := int64(k)*64 + d; p >= 0 && p <= MaxTop {
				ps = append(ps, p)
			}
		}
	}
	sort.Slice(ps, func(i, j int) bool { return ps[i] < ps[j] })
	return ps
}

// Package gen holds the rapid generators shared by several properties.
// Every random choice is a rapid draw, so shrinking and replay work.
package gen

import (
	"math/bits"

	"pgregory.net/rapid"
)

// U64 draws a word whose bits all vary: rapid's integer generators favour
// small magnitudes (short bit lengths), so the raw draw is passed through the
// splitmix64 finaliser, a bijection on uint64. All randomness is still rapid's.
func U64(t *rapid.T, label string) uint64 {
	return mix(rapid.Uint64().Draw(t, label))
}

// Uniform draws an (almost) unbiased index in [0,n).
func Uniform(t *rapid.T, n int, label string) int {
	return int(U64(t, label) % uint64(n))
}

// Chance is true with probability about num/den.
func Chance(t *rapid.T, num, den int, label string) bool {
	return Uniform(t, den, label) < num
}

func mix(z uint64) uint64 {
	z += 0x9e3779b97f4a7c15
	z = (z ^ (z >> 30)) * 0xbf58476d1ce4e5b9
	z = (z ^ (z >> 27)) * 0x94d049bb133111eb
	return z ^ (z >> 31)
}

// WordPalette are the word values used to hit in-word boundaries.
var WordPalette = []uint64{
	0, ^uint64(0), 1, 2, 1 << 31, 1 << 32, 1 << 62, 1 << 63,
	0xffffffff, 0xffffffff00000000, 0x8000000000000001,
	0x00ff00ff00ff00ff, 0x0101010101010101, 0x8080808080808080,
	0x7fffffffffffffff, 0xfffffffffffffffe, 0xffff, 0xff, 0xff00, 0x10000,
}

// Word draws one 64-bit word from a mixture of boundary patterns and densities.
func Word(t *rapid.T, label string) uint64 {
	switch rapid.IntRange(0, 7).Draw(t, label+".style") {
	case 0:
		return rapid.SampledFrom(WordPalette).Draw(t, label+".pal")
	case 1: // sparse
		return U64(t, label+".a") & U64(t, label+".b") & U64(t, label+".c")
	case 2: // dense
		return U64(t, label+".a") | U64(t, label+".b") | U64(t, label+".c")
	case 3: // single bit
		return 1 << uint(rapid.IntRange(0, 63).Draw(t, label+".bit"))
	case 4: // two bits
		return 1<<uint(rapid.IntRange(0, 63).Draw(t, label+".b1")) | 1<<uint(rapid.IntRange(0, 63).Draw(t, label+".b2"))
	case 5: // a run of ones [lo, hi]
		lo := rapid.IntRange(0, 63).Draw(t, label+".lo")
		hi := rapid.IntRange(lo, 63).Draw(t, label+".hi")
		return (^uint64(0) >> uint(63-hi)) &^ ((1 << uint(lo)) - 1)
	case 6: // byte-wise palette
		var w uint64
		for b := 0; b < 8; b++ {
			w |= uint64(rapid.SampledFrom([]byte{0, 0, 0xff, 0x01, 0x80, 0x0f, 0xf0, 0x55}).Draw(t, label+".byte")) << uint(8*b)
		}
		return w
	default:
		return U64(t, label+".u")
	}
}

// Len draws a length in [0,max] that favours the small and the boundary values.
func Len(t *rapid.T, max int, label string) int {
	if max <= 0 {
		return 0
	}
	switch rapid.IntRange(0, 9).Draw(t, label+".class") {
	case 0:
		return 0
	case 1:
		return 1
	case 2:
		return min(2, max)
	case 3:
		return min(3, max)
	case 4, 5:
		return rapid.IntRange(0, min(8, max)).Draw(t, label)
	case 6:
		return max
	default:
		return rapid.IntRange(0, max).Draw(t, label)
	}
}

// BitmapStyles names the styles of Bitmap, index = style number.
var BitmapStyles = []string{"zero", "ones", "mixed", "sparse", "dense", "islands", "exact-count", "tail", "palette"}

// Bitmap draws a bitmap of at most maxWords words; it returns the style name too.
func Bitmap(t *rapid.T, maxWords int, label string) ([]uint64, string) {
	n := Len(t, maxWords, label+".len")
	style := rapid.IntRange(0, len(BitmapStyles)-1).Draw(t, label+".style")
	w := make([]uint64, n)
	switch style {
	case 0:
	case 1:
		for i := range w {
			w[i] = ^uint64(0)
		}
	case 2:
		for i := range w {
			w[i] = Word(t, label+".w")
		}
	case 3:
		for i := range w {
			w[i] = U64(t, label+".a") & U64(t, label+".b") & U64(t, label+".c") & U64(t, label+".d")
		}
	case 4:
		for i := range w {
			w[i] = U64(t, label+".a") | U64(t, label+".b") | U64(t, label+".c")
		}
	case 5: // islands: non-zero words separated by runs of 1..5 zero words
		for i := 0; i < n; {
			w[i] = Word(t, label+".w")
			i += 1 + rapid.IntRange(1, 5).Draw(t, label+".gap")
		}
	case 6: // exact-count: exactly 32k-1 / 32k / 32k+1 ones
		for i := range w {
			w[i] = U64(t, label+".u")
		}
		if n > 0 {
			maxK := (64*n - 1) / 32
			if maxK >= 1 {
				k := rapid.IntRange(1, maxK).Draw(t, label+".k")
				target := 32*k + rapid.IntRange(-1, 1).Draw(t, label+".d")
				forceCount(w, target)
			}
		}
	case 7: // tail: very few ones, the last one at the very last bit
		if n > 0 {
			w[n-1] = 1 << 63
			if rapid.Bool().Draw(t, label+".more") {
				w[rapid.IntRange(0, n-1).Draw(t, label+".wi")] |= 1 << uint(rapid.IntRange(0, 63).Draw(t, label+".bi"))
			}
		}
	default:
		for i := range w {
			w[i] = rapid.SampledFrom(WordPalette).Draw(t, label+".pal")
		}
	}
	return w, BitmapStyles[style]
}

// forceCount clears ones from the end / sets zeros from the start until the
// bitmap holds exactly target ones (0 <= target <= 64*len).
func forceCount(w []uint64, target int) {
	cnt := 0
	for _, x := range w {
		cnt += bits.OnesCount64(x)
	}
	for i := len(w)*64 - 1; i >= 0 && cnt > target; i-- {
		if w[i>>6]>>(uint(i)&63)&1 == 1 {
			w[i>>6] &^= 1 << (uint(i) & 63)
			cnt--
		}
	}
	for i := 0; i < len(w)*64 && cnt < target; i++ {
		if w[i>>6]>>(uint(i)&63)&1 == 0 {
			w[i>>6] |= 1 << (uint(i) & 63)
			cnt++
		}
	}
}

// BigSpec describes a large bitmap compactly; Expand is a pure function of it.
type BigSpec struct {
	N     int    `json:"n"`     // words
	Key   uint64 `json:"key"`   // expansion key (a rapid draw)
	Style int    `json:"style"` // 0 uniform, 1 sparse, 2 dense, 3 islands, 4 ones, 5 one-bit-per-word
}

// Expand deterministically expands a BigSpec (splitmix64 counter mode: a pure
// function of values that rapid drew, not an independent random source).
func (s BigSpec) Expand() []uint64 {
	w := make([]uint64, s.N)
	x := s.Key
	next := func() uint64 {
		x += 0x9e3779b97f4a7c15
		z := x
		z = (z ^ (z >> 30)) * 0xbf58476d1ce4e5b9
		z = (z ^ (z >> 27)) * 0x94d049bb133111eb
		return z ^ (z >> 31)
	}
	for i := range w {
		switch s.Style {
		case 0:
			w[i] = next()
		case 1:
			w[i] = next() & next() & next() & next()
		case 2:
			w[i] = next() | next() | next()
		case 3:
			if next()%4 == 0 {
				w[i] = next()
			}
		case 4:
			w[i] = ^uint64(0)
		default:
			w[i] = 1 << (next() & 63)
		}
	}
	return w
}

// Big draws a BigSpec with N in [minWords,maxWords].
func Big(t *rapid.T, minWords, maxWords int, label string) BigSpec {
	return BigSpec{
		N:     rapid.IntRange(minWords, maxWords).Draw(t, label+".n"),
		Key:   U64(t, label+".key"),
		Style: rapid.IntRange(0, 5).Draw(t, label+".style"),
	}
}

package gen

import "unsafe"

// PoolLenC11 is the length of the C11 pool: a 16 MiB heap buffer with pseudo-random content that is a pure
// function of the byte index. Strings of every length up to 2^24 at every address alignment are cut out
// of it without copying (substrings with foreign non-zero bytes before and after).
const PoolLenC11 = 1 << 24

var poolBufC11 []byte

// PoolBlockC11 is the style of the 64-byte block blk of the pool: 0 = all 0xff, 1 = all 0x00, else pseudo-random bytes.
func PoolBlockC11(blk int64) int {
	return int(mix(uint64(blk)*0x2545f4914f6cdd1d+0xc11) & 7)
}

// PoolByteC11 is byte i of the pool (from the description, not from the memory).
func PoolByteC11(i int64) byte {
	switch PoolBlockC11(i >> 6) {
	case 0:
		return 0xff
	case 1:
		return 0x00
	}
	return byte(mix(uint64(i>>3)^0xc11c11c11) >> (8 * uint(i&7)))
}

// PoolC11 returns the process-wide pool as a string (built on first use).
func PoolC11() string {
	if poolBufC11 == nil {
		b := make([]byte, PoolLenC11)
		for blk := int64(0); blk < PoolLenC11>>6; blk++ {
			base := blk << 6
			switch PoolBlockC11(blk) {
			case 0:
				for j := int64(0); j < 64; j++ {
					b[base+j] = 0xff
				}
			case 1:
			default:
				for g := int64(0); g < 8; g++ {
					v := mix(uint64((base>>3)+g) ^ 0xc11c11c11)
					for j := int64(0); j < 8; j++ {
						b[base+8*g+j] = byte(v >> (8 * uint(j)))
					}
				}
			}
		}
		poolBufC11 = b
	}
	return unsafe.String(&poolBufC11[0], PoolLenC11)
}

// PoolDamageC11 compares a sample of the pool memory (and the given range) with the description.
func PoolDamageC11(lo, hi int64) (int64, bool) {
	if poolBufC11 == nil {
		return 0, false
	}
	lo, hi = max(lo, 0), min(hi, PoolLenC11)
	if hi-lo > 256 {
		lo = hi - 256
	}
	for j := lo; j < hi; j++ {
		if poolBufC11[j] != PoolByteC11(j) {
			return j, true
		}
	}
	return 0, false
}

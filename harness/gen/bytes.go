package gen

import (
	"sort"

	"pgregory.net/rapid"
)

var boostedBytes = []byte{0x00, 0x01, 0x7f, 0x80, 0xff, 0x00, 0xff, 'a'}

// Byte draws one byte over the whole alphabet with 00/01/7f/80/ff boosted.
func Byte(t *rapid.T, label string) byte {
	if rapid.IntRange(0, 9).Draw(t, label+".k") < 4 {
		return rapid.SampledFrom(boostedBytes).Draw(t, label+".p")
	}
	return byte(U64(t, label) >> 56)
}

// Bytes draws a byte string of length in [minLen,maxLen].
func Bytes(t *rapid.T, minLen, maxLen int, label string) []byte {
	n := minLen
	if maxLen > minLen {
		n = minLen + Len(t, maxLen-minLen, label+".len")
	}
	return BytesN(t, n, label)
}

// BytesN draws exactly n bytes. Style: uniform-boosted, small alphabet, or constant.
func BytesN(t *rapid.T, n int, label string) []byte {
	b := make([]byte, n)
	if n == 0 {
		return b
	}
	switch rapid.IntRange(0, 5).Draw(t, label+".style") {
	case 0: // tiny alphabet (forces shared prefixes / repeats)
		alpha := []byte{0x00, 0xff, 'a', 'b'}
		for i := range b {
			b[i] = rapid.SampledFrom(alpha).Draw(t, label+".c")
		}
	case 1: // constant
		c := Byte(t, label+".c")
		for i := range b {
			b[i] = c
		}
	default:
		for i := range b {
			b[i] = Byte(t, label+".c")
		}
	}
	return b
}

// Keys draws a sorted, duplicate-free key set of at most maxKeys keys (possibly
// empty) built from a random prefix tree, so that deep shared prefixes, keys
// that are prefixes of their successors, NUL suffixes, high-bit bytes and the
// empty key occur by construction.
func Keys(t *rapid.T, maxKeys int, label string) []string {
	set := map[string]struct{}{}
	add := func(k []byte) {
		if len(set) < maxKeys {
			set[string(k)] = struct{}{}
		}
	}
	if rapid.IntRange(0, 9).Draw(t, label+".empty") == 0 {
		add(nil)
	}
	var rec func(prefix []byte, depth int)
	rec = func(prefix []byte, depth int) {
		nChildren := rapid.IntRange(1, 4).Draw(t, label+".children")
		for c := 0; c < nChildren && len(set) < maxKeys; c++ {
			var extLen int
			switch rapid.IntRange(0, 5).Draw(t, label+".extclass") {
			case 0, 1, 2:
				extLen = rapid.IntRange(1, 3).Draw(t, label+".ext")
			case 3:
				extLen = rapid.IntRange(7, 9).Draw(t, label+".ext")
			case 4:
				extLen = rapid.IntRange(15, 17).Draw(t, label+".ext")
			default:
				extLen = rapid.IntRange(1, 20).Draw(t, label+".ext")
			}
			key := append(append([]byte(nil), prefix...), BytesN(t, extLen, label+".extbytes")...)
			mode := rapid.IntRange(0, 7).Draw(t, label+".mode")
			if mode != 0 { // mode 0: inner node only
				add(key)
			}
			if mode == 1 || mode == 2 { // NUL-suffix family
				k1 := append(append([]byte(nil), key...), 0)
				add(k1)
				if mode == 2 {
					add(append(append([]byte(nil), k1...), 0))
				}
			}
			if depth < 5 && rapid.IntRange(0, 2).Draw(t, label+".recurse") != 0 {
				rec(key, depth+1)
			}
		}
	}
	if maxKeys > 0 {
		var root []byte
		if Chance(t, 1, 12, label+".longroot") { // very deep common prefix (> 128 bytes)
			root = BytesN(t, 120+Uniform(t, 200, label+".rootlen"), label+".root")
		}
		rec(root, 0)
		if rapid.IntRange(0, 3).Draw(t, label+".second") == 0 {
			rec(nil, 0)
		}
	}
	keys := make([]string, 0, len(set))
	for k := range set {
		keys = append(keys, k)
	}
	sort.Strings(keys) // map order is irrelevant after sorting
	return keys
}

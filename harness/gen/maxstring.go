package gen

import (
	"sort"
	"unsafe"
)

// MaxStrLen is the length of the maximum string: 2^28 bytes = 2^31 bits, one more bit than an int32 bit
// position can address (so every int32 position is inside it, and 8*len does not fit an int32).
const MaxStrLen = 1 << 28

// maxStrSet are the only non-zero bytes of the maximum string (index -> byte).
var maxStrSet = map[int]byte{
	0: 0x41, 1: 0x80, 7: 0xff, 8: 0x01, 9: 0x7f,
	MaxStrLen / 2: 0x5a, MaxStrLen/2 + 1: 0xa5,
	MaxStrLen - 13: 0xc3, MaxStrLen - 12: 0x3c,
	MaxStrLen - 9: 0x81, MaxStrLen - 6: 0xff, MaxStrLen - 5: 0x7e, MaxStrLen - 4: 0x01, MaxStrLen - 3: 0x80, MaxStrLen - 2: 0xff, MaxStrLen - 1: 0xa5,
}

var maxStrBuf []byte

// MaxString returns a process-wide string of exactly 2^28 bytes (256 MiB, almost all of it untouched zero
// pages) with a handful of non-zero bytes; cut drops that many bytes from its end. The memory is shared:
// check MaxStringDamage afterwards. Oracles use MaxStrByte / MaxStrBit (the description), not the memory.
func MaxString(cut int) string {
	if maxStrBuf == nil {
		maxStrBuf = make([]byte, MaxStrLen)
		for k, v := range maxStrSet {
			maxStrBuf[k] = v
		}
	}
	return unsafe.String(&maxStrBuf[0], MaxStrLen-cut)
}

// MaxStrByte is byte i of the maximum string (from the description).
func MaxStrByte(i int64) byte { return maxStrSet[int(i)] }

// MaxStrBit is bit i (most significant bit of each byte first) of the maximum string.
func MaxStrBit(i int64) uint64 { return uint64(maxStrSet[int(i/8)]>>(7-uint(i%8))) & 1 }

// MaxStrCopy returns a private copy of bytes [lo, hi) of the maximum string, built from the description.
func MaxStrCopy(lo, hi int64) []byte {
	b := make([]byte, hi-lo)
	for i := range b {
		b[i] = maxStrSet[int(lo)+i]
	}
	return b
}

// MaxStringDamage reports a byte of the shared memory that no longer matches the description.
func MaxStringDamage() (int, bool) {
	if maxStrBuf == nil {
		return 0, false
	}
	ks := make([]int, 0, len(maxStrSet))
	for k := range maxStrSet {
		ks = append(ks, k)
	}
	sort.Ints(ks)
	for _, k := range ks {
		for d := -1; d <= 1; d++ {
			if j := k + d; j >= 0 && j < MaxStrLen && maxStrBuf[j] != maxStrSet[j] {
				return j, true
			}
		}
	}
	for j := 5; j < MaxStrLen; j += 1 << 19 {
		if maxStrBuf[j] != maxStrSet[j] {
			return j, true
		}
	}
	return 0, false
}

package gen

// UseMaxCustom installs a caller-supplied description (word index -> word, every other word zero) on the
// process-wide 2^25-word array of UseMax and returns the array. It takes the place of a further variant:
// the words of the description that was installed before are cleared first, a later UseMax(v) /
// UseMaxCustom clears these again, and MaxSetWords / MaxOnes / MaxBitmapDamage speak about it meanwhile.
// Callers slice the result to the bitmap length they want (indexes at or beyond that length are then
// foreign words inside the capacity). Indexes must lie in [0, MaxWords).
func UseMaxCustom(set map[int]uint64) []uint64 {
	if maxBM == nil {
		maxBM = make([]uint64, MaxWords)
	}
	if maxCur >= 0 {
		for k := range maxVariants[maxCur] {
			maxBM[k] = 0
		}
	}
	if len(maxVariants) == MaxVariants {
		maxVariants = append(maxVariants, nil)
	}
	maxVariants[MaxVariants] = set
	for k, w := range set {
		maxBM[k] = w
	}
	maxCur, maxSet = MaxVariants, set
	return maxBM
}

#!/usr/bin/env python3
"""Prints the markdown table of /verif/seeded/*/meta.json (for DESIGN.md 10.6)."""
import glob, json, os
rows = []
for p in sorted(glob.glob(os.path.join(os.path.dirname(os.path.dirname(os.path.abspath(__file__))), "seeded", "*", "meta.json"))):
    d = json.load(open(p))
    ck = d.get("checks", {})
    got = []
    for prop, r in ck.items():
        tier = "quick" if r.get("quick") == 1 else "thorough" if r.get("thorough") == 1 else None
        fc = (r.get("failing_case") or "")
        kind = fc.split("kind=")[1].split(":")[0] if "kind=" in fc else ""
        got.append("%s %s%s" % (prop, tier or "**not caught**", (" (`%s`)" % kind) if kind else ""))
    hist = (" — " + d["history"]) if d.get("history") else ""
    rows.append("| %s | %s | %s | %s | %s%s |" % (d["id"], d["property"], d["summary"].replace("|", "/").replace("\n", " ")[:260], d["needs"].replace("|", "/").replace("\n", " ")[:200], "; ".join(got), hist))
print("| seed | property | change (written by a sub-agent that saw only the property text) | needs, to manifest | caught by |")
print("|---|---|---|---|---|")
print("\n".join(rows))

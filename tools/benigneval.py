#!/usr/bin/env python3
"""Evaluate one property-PRESERVING change written by a sub-agent (false-alarm control; development aid).

  tools/benigneval.py <dir with patch.diff + meta.json> <id, e.g. c07-b1> [--thorough] [--props C06,C07]

Scratch clone of /repo (never /repo itself) -> git apply --3way -> go build -> pinned suite (minus mathext/zipf) ->
the property's quick check (and thorough with --thorough) must exit 0. A VIOLATION here is either a false alarm of
the check or a defect the sub-agent introduced by accident: the failing case is printed for triage.
Stored under /verif/benign/<id>/ (patch.diff, meta.json with the outcome).
"""
import json, os, shutil, subprocess, sys, tempfile
VERIF = os.path.dirname(os.path.dirname(os.path.abspath(__file__)))
ENV = dict(os.environ, GOFLAGS="-mod=mod", GOPROXY="off", GOSUMDB="off", GOTOOLCHAIN="local", VERIF_REPLAY_DIR="/verif/replays/.benign")


def sh(cmd, cwd, env=ENV, timeout=7200):
    p = subprocess.run(cmd, cwd=cwd, env=env, shell=isinstance(cmd, str), stdout=subprocess.PIPE, stderr=subprocess.STDOUT, text=True, errors="replace", timeout=timeout)
    return p.returncode, p.stdout


def main():
    a = sys.argv[1:]
    src, bid = a[0], a[1]
    meta = json.load(open(os.path.join(src, "meta.json")))
    props = [meta["property"]]
    if "--props" in a:
        props = a[a.index("--props") + 1].split(",")
    tiers = ["quick"] + (["thorough"] if "--thorough" in a else [])
    root = tempfile.mkdtemp(prefix="benign-")
    rep = {"id": bid}
    try:
        subprocess.run(["git", "clone", "-q", "--shared", "/repo", root], check=True)
        rc, out = sh(["git", "apply", "--3way", "--whitespace=nowarn", os.path.join(os.path.abspath(src), "patch.diff")], root)
        rep["applies"] = rc == 0 and "with conflicts" not in out
        if not rep["applies"] and "with conflicts" in out:
            # the variant rewrote lines that a later "fix:" commit in /repo also touched: take the variant's side
            files = [l.split()[1] for l in out.splitlines() if l.startswith("U ")]
            rc2, out2 = sh(["git", "checkout", "--theirs", "--"] + files, root)
            rep["applies"] = rc2 == 0 and bool(files)
            rep["conflict_resolved_with_variant_side"] = files
        if not rep["applies"]:
            print(json.dumps(rep), out[-600:])
            return 1
        sh(["git", "reset", "-q"], root)
        rc, out = sh("go build ./...", root)
        rep["compiles"] = rc == 0
        rc, out = sh("go test -vet=off -count=1 $(go list ./... | grep -v mathext/zipf)", root)
        rep["suite_passes"] = rc == 0
        if rc != 0:
            rep["suite_tail"] = out[-600:]
        env = dict(ENV, VERIF_REPO=root, VERIF_EVIDENCE_DIR=os.path.join(root, ".verif-evidence"))
        rep["checks"] = {}
        for prop in props:
            r = {}
            for tier in tiers:
                rc, out = sh([os.path.join(VERIF, "run"), prop, tier], VERIF, env)
                r[tier] = rc
                lines = [l for l in out.splitlines() if l.strip()]
                r[tier + "_last"] = lines[-1][:300] if lines else ""
                if rc == 1:
                    for l in lines:
                        if l.startswith("failing case:"):
                            r["failing_case"] = l[:1500]
                        if l.startswith("VIOLATION"):
                            path = l.split("replay=")[1].strip()
                            keep = os.path.join(VERIF, "benign", bid)
                            os.makedirs(keep, exist_ok=True)
                            shutil.copy(path, os.path.join(keep, "alarm-%s.json" % prop))
                            os.remove(path)
                    break
            rep["checks"][prop] = r
        keep = os.path.join(VERIF, "benign", bid)
        os.makedirs(keep, exist_ok=True)
        if os.path.abspath(src) != os.path.abspath(keep):
            shutil.copy(os.path.join(src, "patch.diff"), keep)
        meta2 = dict(meta, id=bid, written_by="independent sub-agent given only the property text and a scratch worktree, asked for a property-PRESERVING change",
                     confirmed={k: rep.get(k) for k in ("applies", "compiles", "suite_passes", "conflict_resolved_with_variant_side") if k in rep}, checks=rep["checks"])
        try:
            old = json.load(open(os.path.join(keep, "meta.json")))
            if old.get("triage"):
                meta2["triage"] = old["triage"]
        except (OSError, ValueError):
            pass
        json.dump(meta2, open(os.path.join(keep, "meta.json"), "w"), indent=1)
        print(json.dumps(rep, indent=1))
    finally:
        shutil.rmtree(root, ignore_errors=True)


if __name__ == "__main__":
    sys.exit(main())

#!/bin/sh
# re-evaluates every stored independent change (both rounds) against the current checks
cd "$(dirname "$0")/.."
for id in C01 C02 C03 C04 C05 C06 C07 C08 C09 C10 C11 C12 C13 C14 C15 C16 C17 C18 C19 C20; do
  lid=$(echo $id | tr 'A-Z' 'a-z')
  for pair in "round1/1 1" "round1/2 2" "round2/1 3" "round2/2 4" "out/1 5" "out/2 6"; do
    set -- $pair
    d=/tmp/seed/$id/$1
    [ -f $d/patch.diff ] || continue
    python3 tools/seedeval.py $d $lid-$2 2>&1 | python3 -c "
import sys,re
l=sys.stdin.read()
print('$lid-$2', 'valid=' + str('\"valid_seed\": true' in l), re.findall(r'\"(quick|thorough|replay_on_changed_tree|replay_on_repo)\": (\d)', l), re.findall(r'kind=([\w:-]+)', l)[:1])"
  done
done

#!/bin/sh
# re-evaluates every stored independent change (/verif/seeded/<id>/) against the current checks and the current /repo
# usage: tools/seedall.sh [id-prefix ...]      e.g. tools/seedall.sh c01 c14-6
cd "$(dirname "$0")/.."
for d in seeded/c*; do
  sid=$(basename $d)
  if [ $# -gt 0 ]; then
    hit=0; for p in "$@"; do case $sid in $p*) hit=1;; esac; done
    [ $hit = 1 ] || continue
  fi
  [ -f $d/patch.diff ] || continue
  python3 tools/seedeval.py $d $sid 2>&1 | python3 -c "
import sys,re
l=sys.stdin.read()
print('$sid', 'valid=' + str('\"valid_seed\": true' in l), re.findall(r'\"(applies|quick|thorough|replay_on_changed_tree|replay_on_repo)\": (\\d|true|false)', l), re.findall(r'kind=([\\w:-]+)', l)[:1])"
done

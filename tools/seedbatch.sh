#!/bin/sh
# usage: tools/seedbatch.sh C01 C04 ...   (evaluates /tmp/seed/<ID>/out/{1,2})
cd "$(dirname "$0")/.."
for id in "$@"; do for i in 1 2; do
  d=/tmp/seed/$id/out/$i
  [ -f $d/patch.diff ] || { echo "$id-$i: no patch"; continue; }
  sid=$(echo $id | tr "A-Z" "a-z")-$((i+${OFFSET:-0}))
  python3 tools/seedeval.py $d $sid 2>&1 | python3 -c "
import sys,json
t=sys.stdin.read()
try:
    d=json.loads(t[t.index('{'):])
    print(d['seed'], 'valid=',d.get('valid_seed'), {k:d.get(k) for k in ('applies','compiles','suite_passes','demo_fails_with_patch','demo_passes_without_patch') if not d.get(k)}, json.dumps(d.get('checks'))[:700])
except Exception as e: print('ERR',e,t[-1500:])
"
done; done

#!/usr/bin/env python3
"""Sensitivity aid (development tool, not registered in MANIFEST.json).

  tools/mut.py list [PROP]
  tools/mut.py run  [PROP|MUTANT-ID ...] [--tier quick] [--no-suite]

For each selected mutant of tools/mutants.py: copy /repo to a scratch directory
outside /repo and /verif, apply the textual replacement, make sure it still
compiles and (unless --no-suite) that the package's pinned tests still pass,
run `VERIF_REPO=<scratch> ./run <PROP> <tier>`, expect exit 1 (or exit 0 for a
mutant marked equivalent/control), and delete the scratch copy.
"""
import os
import shutil
import subprocess
import sys
import tempfile

HERE = os.path.dirname(os.path.abspath(__file__))
VERIF = os.path.dirname(HERE)
sys.path.insert(0, HERE)
from mutants import MUTANTS  # noqa: E402

ENV = dict(os.environ, GOFLAGS="-mod=mod", GOPROXY="off", GOSUMDB="off", GOTOOLCHAIN="local", VERIF_REPLAY_DIR="/verif/replays/.mut")


def apply(root, m):
    p = os.path.join(root, m["file"])
    s = open(p).read()
    cnt = s.count(m["old"])
    want = m.get("count", 1)
    if cnt != want:
        raise SystemExit("mutant %s: pattern occurs %d times in %s (expected %d)" % (m["id"], cnt, m["file"], want))
    nth = m.get("nth")
    if nth is None:
        s = s.replace(m["old"], m["new"])
    else:
        parts = s.split(m["old"])
        s = m["old"].join(parts[:nth + 1]) + m["new"] + m["old"].join(parts[nth + 1:])
    open(p, "w").write(s)


def run_one(m, tier, suite):
    root = tempfile.mkdtemp(prefix="mut-")
    try:
        subprocess.run(["rsync", "-a", "--exclude", ".git", "/repo/", root + "/"], check=True)
        for sub in [m] + m.get("also", []):
            apply(root, dict(m, **sub) if sub is not m else m)
        pkg = "./" + os.path.dirname(m["file"]) + "/..."
        b = subprocess.run(["go", "build", "./..."], cwd=root, env=ENV, stdout=subprocess.PIPE, stderr=subprocess.STDOUT, text=True, errors="replace")
        if b.returncode != 0:
            return "NOCOMPILE", b.stdout[-500:]
        suite_res = "-"
        if suite:
            t = subprocess.run(["go", "test", "-vet=off", "-count=1", pkg], cwd=root, env=ENV, stdout=subprocess.PIPE, stderr=subprocess.STDOUT, text=True, errors="replace")
            suite_res = "suite-pass" if t.returncode == 0 else "suite-FAIL"
        env = dict(ENV, VERIF_REPO=root, VERIF_EVIDENCE_DIR=os.path.join(root, ".verif-evidence"))
        if m.get("thorough_only"):
            tier = "thorough"
        r = subprocess.run([os.path.join(VERIF, "run"), m["prop"], tier], cwd=VERIF, env=env, stdout=subprocess.PIPE, stderr=subprocess.STDOUT, text=True, errors="replace")
        expect = 0 if m.get("equivalent") else 1
        verdict = "ok" if r.returncode == expect else "MISSED" if expect == 1 else "FALSE-ALARM"
        if r.returncode == 2:
            verdict = "INFRA"
        last = [l for l in r.stdout.splitlines() if l.strip()][-3:]
        # replay round trip for caught mutants
        if r.returncode == 1:
            for l in r.stdout.splitlines():
                if l.startswith("VIOLATION"):
                    path = l.split("replay=")[1].strip()
                    rr = subprocess.run([os.path.join(VERIF, "run"), m["prop"], "--replay", path], cwd=VERIF, env=env, stdout=subprocess.PIPE, stderr=subprocess.STDOUT, text=True, errors="replace")
                    rc = subprocess.run([os.path.join(VERIF, "run"), m["prop"], "--replay", path], cwd=VERIF, env=ENV, stdout=subprocess.PIPE, stderr=subprocess.STDOUT, text=True, errors="replace")
                    if rr.returncode != 1 or rc.returncode != 0:
                        verdict += " REPLAY-MISMATCH(mut=%d clean=%d)" % (rr.returncode, rc.returncode)
                    os.remove(path)
        return "%s exit=%d %s" % (verdict, r.returncode, suite_res), "\n".join(last)
    finally:
        shutil.rmtree(root, ignore_errors=True)


def main():
    a = sys.argv[1:]
    if not a:
        raise SystemExit(__doc__)
    cmd, a = a[0], a[1:]
    tier, suite, sel = "quick", True, []
    i = 0
    while i < len(a):
        if a[i] == "--tier":
            tier = a[i + 1]
            i += 2
        elif a[i] == "--no-suite":
            suite = False
            i += 1
        else:
            sel.append(a[i])
            i += 1
    ms = [m for m in MUTANTS if not sel or m["prop"] in sel or m["id"] in sel]
    if cmd == "list":
        for m in ms:
            print(m["id"], m["prop"], m["file"], "EQUIV" if m.get("equivalent") else "", "-", m.get("note", ""))
        return
    bad = 0
    rows = []
    for m in ms:
        try:
            verdict, detail = run_one(m, tier, suite)
        except SystemExit as e:
            verdict, detail = "BROKEN-MUTANT", str(e)
        rows.append((m, verdict))
        print("%-28s %-5s %s" % (m["id"], m["prop"], verdict), flush=True)
        if not verdict.startswith("ok") or "MISMATCH" in verdict:
            bad += 1
            print("    " + detail.replace("\n", "\n    "))
    print("done: %d mutants, %d need attention" % (len(ms), bad))
    md = os.environ.get("MUT_MD")
    if md:
        with open(md, "w") as f:
            f.write("| mutant | property | file | what it does | expected | %s check | pinned suite |\n|---|---|---|---|---|---|---|\n" % tier)
            for m, v in rows:
                exp = "stays green (equivalent/control)" if m.get("equivalent") else "VIOLATION"
                got = ("exit 1 (caught%s)" % (" by the thorough tier" if m.get("thorough_only") else "")) if "exit=1" in v else "exit 0" if "exit=0" in v else v
                suite_s = "passes" if "suite-pass" in v else "fails (control)" if "suite-FAIL" in v else "-"
                note = (m.get("note") or (m["old"][:40].replace("\n", " ").replace("|", "/") + " -> " + m["new"][:40].replace("\n", " ").replace("|", "/"))).replace("|", "/")
                f.write("| %s | %s | %s | %s | %s | %s%s | %s |\n" % (m["id"], m["prop"], m["file"], note, exp, got, "" if v.startswith("ok") else " **" + v.split()[0] + "**", suite_s))


if __name__ == "__main__":
    main()

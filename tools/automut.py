#!/usr/bin/env python3
"""Systematic mutation sweep (development aid, not registered in MANIFEST.json).

Generates single-token mutants of the library's non-test sources with generic operators
(relational / arithmetic / logical / shift / bitwise swaps, integer literals +-1, true<->false,
compound-assignment swaps, deletion of simple statements), and for each one:
  scratch copy of /repo -> apply -> go build (else NOCOMPILE) -> the package's own tests with the
  pinned flags (else SUITE: the existing tests already see it, not interesting) -> the quick check of
  every property mapped to the file, in order, until one exits 1 (CAUGHT) -> otherwise SURVIVED
  (exit 0 everywhere) or INFRA (a check exited 2: time-out, e.g. an endless loop).
Survivors are then triaged by hand: equivalent mutant, outside every statement, or a gap to close.

  python3 tools/automut.py gen [file-prefix ...]           list the mutants (count per file)
  python3 tools/automut.py run OUT.jsonl [-j N] [file-prefix ...] [--resume]
  python3 tools/automut.py report OUT.jsonl                summary + survivors
Never touches /repo; scratch copies live under $TMPDIR and are removed after each mutant.
"""
import concurrent.futures as cf
import glob
import json
import os
import re
import shutil
import subprocess
import sys
import tempfile

VERIF = os.path.dirname(os.path.dirname(os.path.abspath(__file__)))
REPO = "/repo"
ENV = dict(os.environ, GOFLAGS="-mod=mod", GOPROXY="off", GOSUMDB="off", GOTOOLCHAIN="local", VERIF_REPLAY_DIR="/verif/replays/.automut")

FILEMAP = {
    "bitmap/rank.go": ["C01"], "bitmap/select.go": ["C02"], "bitmap/next.go": ["C13"],
    "bitmap/of.go": ["C12"], "bitmap/ofmany.go": ["C12"], "bitmap/toarray.go": ["C12"], "bitmap/builder.go": ["C12"],
    "bitmap/get.go": ["C12", "C14"], "bitmap/join.go": ["C14"], "bitmap/slice.go": ["C14"],
    "bitmap/tailbitmap.go": ["C15"], "bitmap/fromstr32.go": ["C11"],
    "bitmap/mask.go": ["C13", "C14", "C02", "C01", "C12", "C15", "C11"], "bitmap/bitmap.go": ["C13", "C14", "C02", "C01", "C12"],
    "bmtree/allpaths.go": ["C04"], "bmtree/decode.go": ["C04"], "bmtree/index.go": ["C03", "C05", "C04"],
    "bmtree/partial_tree.go": ["C03", "C05"], "bmtree/newpath.go": ["C10", "C11"],
    "bmtree/pathbits.go": ["C10", "C03"], "bmtree/pathheight.go": ["C10", "C03"], "bmtree/pathlen.go": ["C10", "C03"],
    "bmtree/pathstr.go": ["C10"], "bmtree/height.go": ["C03", "C04"], "bmtree/bmtree.go": ["C03", "C05", "C04"],
    "bmtree/bitmap_check.go": ["C03"], "bmtree/bitmappath_check.go": ["C03"], "bmtree/pathcheck.go": ["C03"],
    "bitstr/bitstr.go": ["C09"], "bitword/bitword.go": ["C08"],
    "sigbits/countprefixes.go": ["C16"], "sigbits/sigbits_countprefixes.go": ["C16"], "sigbits/sigbits.go": ["C16"],
    "sigbits/firstdiff.go": ["C16", "C17"], "sigbits/sharding.go": ["C17"],
    "pbcmpl/pbcmpl.go": ["C06", "C07"], "pbcmpl/header.go": ["C06", "C07"], "pbcmpl/errors.go": ["C07"],
    "iohelper/iohelper.go": ["C18"], "size/sizeof.go": ["C20"],
}

# (regex on the masked line, replacements)
OPS = [
    ("rel", r"(?<![<>=!+\-*/&|^%:])==(?!=)", ["!="]),
    ("rel", r"!=", ["=="]),
    ("rel", r"(?<![<\-])<=(?!=)", ["<"]),
    ("rel", r"(?<![>])>=(?!=)", [">"]),
    ("rel", r"(?<![<\-])<(?![<=\-])", ["<="]),
    ("rel", r"(?<![>\-])>(?![>=])", [">="]),
    ("log", r"&&", ["||"]),
    ("log", r"\|\|", ["&&"]),
    ("shift", r"<<(?!=)", [">>"]),
    ("shift", r">>(?!=)", ["<<"]),
    ("arith", r"(?<![+])\+(?![+=])", ["-"]),
    ("arith", r"(?<![\-<])-(?![\-=>])", ["+"]),
    ("arith", r"(?<=[\w\)\]])\s*\*\s*(?=[\w\(])", [" / "]),
    ("arith", r"(?<=[\w\)\]])\s*/\s*(?=[\w\(])", [" * "]),
    ("arith", r"(?<=[\w\)\]])\s*%\s*(?=[\w\(])", [" / "]),
    ("assign", r"\+=", ["-="]),
    ("assign", r"-=", ["+="]),
    ("assign", r"(?<![|])\|=", ["&=", "^="]),
    ("assign", r"(?<![&])&=", ["|="]),
    ("assign", r"<<=", [">>="]),
    ("assign", r">>=", ["<<="]),
    ("bit", r"(?<![&])&(?![&^=])", ["|"]),
    ("bit", r"(?<![|])\|(?![|=])", ["&"]),
    ("bit", r"&\^(?!=)", ["&"]),
    ("bit", r"(?<![&\w\)\]])\^(?=[\w\(])", [""]),   # unary complement dropped
    ("bit", r"(?<=[\w\)\]])\s*\^\s*(?=[\w\(])", [" | "]),  # xor -> or
    ("not", r"!(?=[\w\(])", [""]),
    ("incdec", r"\+\+", ["--"]),
    ("bool", r"\btrue\b", ["false"]),
    ("bool", r"\bfalse\b", ["true"]),
]
INT = re.compile(r"(?<![\w.])(0[xX][0-9a-fA-F]+|\d+)(?![\w.])")
STMT = re.compile(r"^\s*(?:[\w\.\[\]\(\)\*&>+\-<:]+(?:\s*,\s*[\w\.\[\]\(\)\*]+)*\s*(?:=|\+=|-=|\|=|&=|\^=|<<=|>>=|&\^=)\s[^=].*|[\w\.]+\(.*\)|[\w\.\[\]]+(?:\+\+|--))\s*$")


def mask(line, in_block):
    """Returns (masked line, in_block): string / rune literals and comments blanked, same length."""
    out = []
    i, n = 0, len(line)
    while i < n:
        c = line[i]
        if in_block:
            if line.startswith("*/", i):
                out.append("  ")
                i += 2
                in_block = False
            else:
                out.append(" ")
                i += 1
            continue
        if line.startswith("//", i):
            out.append(" " * (n - i))
            break
        if line.startswith("/*", i):
            in_block = True
            out.append("  ")
            i += 2
            continue
        if c in "\"'`":
            j = i + 1
            while j < n and line[j] != c:
                if line[j] == "\\" and c != "`":
                    j += 1
                j += 1
            out.append(c + " " * (min(j, n - 1) - i - 1) + (c if j < n else ""))
            i = j + 1
            continue
        out.append(c)
        i += 1
    return "".join(out)[:n].ljust(n), in_block


def mutants_of(path):
    rel = os.path.relpath(path, REPO)
    lines = open(path).read().split("\n")
    res = []
    in_block = False
    in_import = False
    for ln, line in enumerate(lines):
        m, in_block = mask(line, in_block)
        s = m.strip()
        if s.startswith("import ("):
            in_import = True
        if in_import:
            if s == ")":
                in_import = False
            continue
        if not s or s.startswith("package ") or s.startswith("import ") or s.startswith("func ") and s.endswith("{") and "(" in s and not re.search(r"[<>=!]=|&&|\|\|", s):
            # plain function signatures carry no operators worth mutating (pointer stars, variadic dots)
            if not s.startswith("func "):
                continue
            continue
        if s.startswith("//go:") or s.startswith("// +build"):
            continue
        for kind, rx, reps in OPS:
            for mt in re.finditer(rx, m):
                for rp in reps:
                    new = line[:mt.start()] + rp + line[mt.end():]
                    if new != line:
                        res.append(dict(file=rel, line=ln + 1, op=kind, old=line, new=new))
        for mt in INT.finditer(m):
            tok = mt.group(1)
            v = int(tok, 0)
            cands = [v + 1] + ([v - 1] if v > 0 else [])
            for nv in cands:
                t = hex(nv) if tok.lower().startswith("0x") else str(nv)
                new = line[:mt.start()] + t + line[mt.end():]
                res.append(dict(file=rel, line=ln + 1, op="int", old=line, new=new))
        if STMT.match(m) and ":=" not in m and not s.startswith("return") and not s.startswith("defer") and not s.startswith("go "):
            res.append(dict(file=rel, line=ln + 1, op="delstmt", old=line, new=re.match(r"\s*", line).group(0) + "// (statement deleted)"))
    # unique ids
    seen = {}
    for r in res:
        k = "%s:%d:%s" % (r["file"], r["line"], r["op"])
        seen[k] = seen.get(k, 0) + 1
        r["id"] = "%s#%d" % (k, seen[k])
    return res


def all_mutants(prefixes):
    res = []
    for rel in sorted(FILEMAP):
        if prefixes and not any(rel.startswith(p) for p in prefixes):
            continue
        res += mutants_of(os.path.join(REPO, rel))
    return res


def sh(cmd, cwd, env=ENV, timeout=900):
    try:
        p = subprocess.run(cmd, cwd=cwd, env=env, stdout=subprocess.PIPE, stderr=subprocess.STDOUT, text=True, errors="replace", timeout=timeout)
        return p.returncode, p.stdout
    except subprocess.TimeoutExpired as e:
        return 124, (e.stdout or b"").decode("utf-8", "replace") if isinstance(e.stdout, bytes) else (e.stdout or "")


def run_one(m):
    root = tempfile.mkdtemp(prefix="automut-")
    try:
        subprocess.run(["rsync", "-a", "--exclude", ".git", REPO + "/", root + "/"], check=True)
        p = os.path.join(root, m["file"])
        lines = open(p).read().split("\n")
        assert lines[m["line"] - 1] == m["old"], "source changed under the sweep"
        lines[m["line"] - 1] = m["new"]
        open(p, "w").write("\n".join(lines))
        pkg = "./" + os.path.dirname(m["file"]) + "/"
        rc, out = sh(["go", "build", pkg], root)
        if rc != 0:
            return dict(m, status="NOCOMPILE")
        rc, out = sh(["go", "vet", pkg], root)  # (unused results etc. that a reviewer's tooling rejects are still kept; vet is informational)
        vet = rc == 0
        # the packages that import the mutated one belong to the pinned suite too
        rc, out = sh(["go", "test", "-vet=off", "-count=1", "-timeout", "120s", pkg] + [d for d in ("./bmtree/", "./sigbits/", "./bitmap/") if d != pkg and os.path.dirname(m["file"]) in ("bitmap", "bmtree")], root, timeout=400)
        if rc != 0:
            return dict(m, status="SUITE", vet=vet)
        env = dict(ENV, VERIF_REPO=root, VERIF_EVIDENCE_DIR=os.path.join(root, ".verif-evidence"))
        verdicts = {}
        for prop in FILEMAP[m["file"]]:
            rc, out = sh([os.path.join(VERIF, "run"), prop, "quick"], VERIF, env, timeout=1200)
            verdicts[prop] = rc
            if rc == 1:
                kind = ""
                for l in out.splitlines():
                    if l.startswith("failing case:"):
                        kind = l[14:200]
                    if l.startswith("VIOLATION"):
                        try:
                            os.remove(l.split("replay=")[1].strip())
                        except OSError:
                            pass
                return dict(m, status="CAUGHT", by=prop, kind=kind, vet=vet, verdicts=verdicts)
        st = "INFRA" if any(v not in (0, 1) for v in verdicts.values()) else "SURVIVED"
        return dict(m, status=st, vet=vet, verdicts=verdicts)
    except Exception as e:  # noqa
        return dict(m, status="ERROR", error=repr(e))
    finally:
        shutil.rmtree(root, ignore_errors=True)


def main():
    a = sys.argv[1:]
    if not a:
        raise SystemExit(__doc__)
    cmd, a = a[0], a[1:]
    if cmd == "gen":
        ms = all_mutants(a)
        per = {}
        for m in ms:
            per[m["file"]] = per.get(m["file"], 0) + 1
        for f in sorted(per):
            print("%5d %s" % (per[f], f))
        print("%5d total" % len(ms))
        return
    if cmd == "run":
        out, a = a[0], a[1:]
        jobs, resume, pref = 6, False, []
        i = 0
        while i < len(a):
            if a[i] == "-j":
                jobs = int(a[i + 1])
                i += 2
            elif a[i] == "--resume":
                resume = True
                i += 1
            else:
                pref.append(a[i])
                i += 1
        ms = all_mutants(pref)
        done = set()
        if resume and os.path.exists(out):
            for l in open(out):
                done.add(json.loads(l)["id"])
        ms = [m for m in ms if m["id"] not in done]
        print("%d mutants to run, %d workers" % (len(ms), jobs), flush=True)
        n = 0
        with open(out, "a") as fh, cf.ThreadPoolExecutor(jobs) as ex:
            for r in ex.map(run_one, ms):
                fh.write(json.dumps(r) + "\n")
                fh.flush()
                n += 1
                if r["status"] in ("SURVIVED", "INFRA", "ERROR"):
                    print("%-9s %s\n     - %s\n     + %s" % (r["status"], r["id"], r["old"].strip(), r["new"].strip()), flush=True)
                if n % 50 == 0:
                    print("... %d done" % n, flush=True)
        return
    if cmd == "report":
        rs = [json.loads(l) for l in open(a[0])]
        cnt = {}
        for r in rs:
            cnt[r["status"]] = cnt.get(r["status"], 0) + 1
        print(cnt)
        for r in rs:
            if r["status"] in ("SURVIVED", "INFRA", "ERROR"):
                print("%-9s %s %s\n     - %s\n     + %s" % (r["status"], r["id"], r.get("verdicts", r.get("error", "")), r["old"].strip(), r["new"].strip()))
        return
    raise SystemExit(__doc__)


if __name__ == "__main__":
    main()

"""Sensitivity catalogue: realistic, compiling mutants of openacid/low, one textual
replacement each (DESIGN.md 3.6). `equivalent: True` marks mutants/controls
that must stay green."""

MUTANTS = [
    # ---------------------------------------------------------------- C01
    dict(id="c01-rank128-idx63", prop="C01", file="bitmap/rank.go", old="n := rindex[(i+64)>>7]", new="n := rindex[(i+63)>>7]"),
    dict(id="c01-rank128-noright", prop="C01", file="bitmap/rank.go", old="c1 := n - atRight*cnt1 +", new="c1 := n - 0*atRight*cnt1 +"),
    dict(id="c01-rank64-maskupto", prop="C01", file="bitmap/rank.go", old="c1 := n + int32(bits.OnesCount64(w&Mask[j]))", new="c1 := n + int32(bits.OnesCount64(w&MaskUpto[j&63]))"),
    dict(id="c01-idx128-minus2", prop="C01", file="bitmap/rank.go", old="if i < len(words)-1 {", new="if i < len(words)-2 || (i < len(words)-1 && len(words) < 6) {",
         note="second word of the last pair dropped for len >= 6 only"),
    dict(id="c01-idx128-extra-inverted-big", prop="C01", file="bitmap/rank.go", old="if len(words)&1 == 0 {", new="if (len(words)&1 == 0) != (len(words) >= 6) {"),
    dict(id="c01-idx64-trailing-prev", prop="C01", file="bitmap/rank.go", old="idx[len(words)] = n\n", new="idx[len(words)] = n - int32(bits.OnesCount64(words[len(words)-1]>>63))\n",
         note="trailing total misses the very last bit (panics on empty: also a failure)"),
    dict(id="c01-idx64-order", prop="C01", file="bitmap/rank.go", old="\t\tidx[i] = n\n\t\tn += int32(bits.OnesCount64(words[i]))\n", new="\t\tn += int32(bits.OnesCount64(words[i] &^ (1 << 62)))\n\t\tidx[i] = n - int32(bits.OnesCount64(words[i] &^ (1 << 62)))\n\t\tn += int32(words[i] >> 62 & 1 & (words[i] >> 61))\n",
         note="bit 62 counted only when bit 61 is also set"),
    # ---------------------------------------------------------------- C02
    # Select32 (second occurrence of shared text = Select32; first = select32single which is unexported/unused)
    dict(id="c02-sel32-halving-31", prop="C02", file="bitmap/select.go", old="base |= 32\n\t\t\tww >>= 32", new="base |= 32\n\t\t\tww >>= 31"),
    dict(id="c02-sel32-base8", prop="C02", file="bitmap/select.go", old="base |= 16\n", new="base |= 8\n"),
    dict(id="c02-sel32-lt", prop="C02", file="bitmap/select.go", old="\t\tones = bits.OnesCount16(uint16(ww))\n\n\t\tif ones <= findIth {", new="\t\tones = bits.OnesCount16(uint16(ww))\n\n\t\tif ones < findIth {"),
    dict(id="c02-sel32-lookup-7f0", prop="C02", file="bitmap/select.go", old="a = int32(select8Lookup[(ww>>5)&(0x7f8)|uint64(findIth-ones)]) + base + 8", new="a = int32(select8Lookup[(ww>>5)&(0x7f0)|uint64(findIth-ones)]) + base + 8"),
    dict(id="c02-sel32-plus8", prop="C02", file="bitmap/select.go", old="|uint64(findIth-ones)]) + base + 8", new="|uint64(findIth-ones)]) + base + 7"),
    dict(id="c02-sel32-next-scan-start", prop="C02", file="bitmap/select.go", old="for wordI := a>>6 + 1; wordI < l; wordI++ {", new="for wordI := a>>6 + 2; wordI < l; wordI++ {"),
    dict(id="c02-sel32-next-minus", prop="C02", file="bitmap/select.go", old="\t\tif w != 0 {\n\t\t\treturn a, wordI<<6 + int32(bits.TrailingZeros64(w))\n\t\t}\n\t}\n\treturn a, l << 6\n}\n\n// IndexSelect32R64", new="\t\tif w != 0 {\n\t\t\treturn a, wordI<<6 - int32(bits.TrailingZeros64(w))\n\t\t}\n\t}\n\treturn a, l << 6\n}\n\n// IndexSelect32R64"),
    dict(id="c02-sel32-tail", prop="C02", file="bitmap/select.go", old="\treturn a, l << 6\n}\n\n// IndexSelect32R64", new="\treturn a, l<<6 - 1\n}\n\n// IndexSelect32R64"),
    dict(id="c02-r64-loop-lt", prop="C02", file="bitmap/select.go", old="for ; rankIndex[wordI+1] <= i; wordI++ {", new="for ; rankIndex[wordI+1] < i; wordI++ {"),
    dict(id="c02-r64-tail", prop="C02", file="bitmap/select.go", old="\treturn a, l << 6\n}\n\n// indexSelectU64", new="\treturn a, l<<6 + 1\n}\n\n// indexSelectU64"),
    dict(id="c02-r64-next-scan", prop="C02", file="bitmap/select.go", old="\twordI++\n\tfor ; wordI < l; wordI++ {", new="\twordI += 2\n\tfor ; wordI < l; wordI++ {"),
    dict(id="c02-idx-ith63", prop="C02", file="bitmap/select.go", old="\t\t\tif ith&31 == 0 {\n\t\t\t\tsidx = append(sidx, int32(i))\n\t\t\t}\n\t\t}\n\t}\n\n\t// clone to reduce cap to len\n\tsidx = append(sidx[:0:0], sidx...)\n\treturn sidx\n", new="\t\t\tif ith&63 == 0 || (ith&31 == 0 && ith < 64) {\n\t\t\t\tsidx = append(sidx, int32(i))\n\t\t\t}\n\t\t}\n\t}\n\n\t// clone to reduce cap to len\n\tsidx = append(sidx[:0:0], sidx...)\n\treturn sidx\n", note="checkpoints dropped beyond the 64th one"),
    dict(id="c02-lookup-xor-equiv", prop="C02", file="bitmap/select.go", old="a = int32(select8Lookup[(ww&0xff)<<3|uint64(findIth)]) + base\n", new="a = int32(select8Lookup[(ww&0xff)<<3^uint64(findIth)]) + base\n", equivalent=True, note="| -> ^ between disjoint bit fields"),
    dict(id="c02-lookup-table-entry", prop="C02", file="bitmap/select.go", old="select8Lookup[i*8+j] = uint8(x)", new="select8Lookup[i*8+j] = uint8(x)\n\t\t\tif i == 0xb5 && j == 4 {\n\t\t\t\tselect8Lookup[i*8+j] = 6\n\t\t\t}", note="one wrong table entry (correct value 7)"),
    # ---------------------------------------------------------------- C03
    dict(id="c03-strict-maskupto", prop="C03", file="bmtree/index.go", old="return int32(idx + uint64(bits.OnesCount64(sz&bitmap.Mask[PathLen(path)])))\n", new="return int32(idx + uint64(bits.OnesCount64(sz&bitmap.MaskUpto[PathLen(path)])))\n"),
    dict(id="c03-loose-drop-popcount-deep", prop="C03", file="bmtree/index.go", old="return int32(idx + uint64(bits.OnesCount64(sz&bitmap.Mask[PathLen(path)]))), has", new="if PathLen(path) > 8 {\n\t\t\treturn int32(idx + uint64(bits.OnesCount64(sz&bitmap.Mask[PathLen(path)-1]))), has\n\t\t}\n\t\treturn int32(idx + uint64(bits.OnesCount64(sz&bitmap.Mask[PathLen(path)]))), has",
         note="loose variant only, deep paths only: strict and loose diverge"),
    dict(id="c03-full-31-tall", prop="C03", file="bmtree/index.go", old="return (int32(path>>32) << 1) + int32(bits.OnesCount64(path^0xffffffff00000000)) - 32\n", new="if height >= 7 {\n\t\t\treturn (int32(path>>32) << 1) + int32(bits.OnesCount64(path^0xffffffff00000000)) - 31\n\t\t}\n\t\treturn (int32(path>>32) << 1) + int32(bits.OnesCount64(path^0xffffffff00000000)) - 32\n",
         note="full-tree closed form off by one for height >= 7 (never computed by the suite)"),
    dict(id="c03-has-shift", prop="C03", file="bmtree/index.go", old="has := (bitmapSize >> uint(pl)) & 1", new="has := (bitmapSize >> uint(pl+1)) & 1 | (bitmapSize>>uint(pl))&int32(1-(pl+30)/31)"),
    dict(id="c03-shiftmulti-tz", prop="C03", file="bmtree/partial_tree.go", old="n := bits.TrailingZeros64(b - 1)", new="n := bits.TrailingZeros64(b-1) &^ (bits.Len64(b) >> 5)",
         equivalent=True, note="wrong shift only when b has more than 31 bits: never happens"),
    dict(id="c03-leafonly-tall", prop="C03", file="bmtree/index.go", old="\t\t// only leaf nodes\n\n\t\treturn int32(path >> 32)\n", new="\t\t// only leaf nodes\n\n\t\treturn int32(path>>32) & 0x3fffffff &^ (int32(height) >> 4 << 20)\n", note="leaf-only: bit 20 dropped for height >= 16"),
    dict(id="c03-contract-e0", prop="C03", file="bmtree/pathcheck.go", old="path&0xc0000000c0000000", new="path&0xe0000000e0000000", note="debug contract rejects valid height-30 paths; invisible to release"),
    dict(id="c03-contract-height-lt30", prop="C03", file="bmtree/bitmap_check.go", old="must.Be.True(height <= 30)", new="must.Be.True(height < 30)"),
    dict(id="c03-contract-loose-level", prop="C03", file="bmtree/index.go", old="\t\tbitmapPathMustHaveEqualHeight(bitmapSize, path)\n\t})\n\n\theight := Height(bitmapSize)\n\tsz := uint64(bitmapSize)\n\tpl := PathLen(path)", new="\t\tbitmapPathMustHaveEqualHeight(bitmapSize, path)\n\t\tbitmapMustHaveLevel(bitmapSize, PathLen(path))\n\t})\n\n\theight := Height(bitmapSize)\n\tsz := uint64(bitmapSize)\n\tpl := PathLen(path)",
         note="over-strict debug contract added to the loose variant"),
    dict(id="c03-shiftmulti-swap-equiv", prop="C03", file="bmtree/index.go", old="idx := shiftMulti(sz, path>>32, uint64(height))", new="idx := shiftMulti(path>>32, sz, uint64(height))", equivalent=True, note="the sum is symmetric"),
    dict(id="c03-general-int32-overflow", prop="C03", file="bmtree/partial_tree.go", old="rst += (a >> shift)", new="rst += uint64(uint32(a>>shift) & 0x1fffffff)", note="drops bit 29 of a partial product: only height-30 trees, first step right"),
]

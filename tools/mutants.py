"""Sensitivity catalogue: realistic, compiling mutants of openacid/low, one textual
replacement each (DESIGN.md 3.6). `equivalent: True` marks mutants/controls
that must stay green."""

MUTANTS = [
    # ---------------------------------------------------------------- C01
    dict(id="c01-rank128-idx63", prop="C01", file="bitmap/rank.go", old="n := rindex[(i+64)>>7]", new="n := rindex[(i+63)>>7]"),
    dict(id="c01-rank128-noright", prop="C01", file="bitmap/rank.go", old="c1 := n - atRight*cnt1 +", new="c1 := n - 0*atRight*cnt1 +"),
    dict(id="c01-rank64-maskupto", prop="C01", file="bitmap/rank.go", old="c1 := n + int32(bits.OnesCount64(w&Mask[j]))", new="c1 := n + int32(bits.OnesCount64(w&MaskUpto[j&63]))"),
    dict(id="c01-idx128-minus2", prop="C01", file="bitmap/rank.go", old="if i < len(words)-1 {", new="if i < len(words)-2 || (i < len(words)-1 && len(words) < 6) {",
         note="second word of the last pair dropped for len >= 6 only"),
    dict(id="c01-idx128-extra-inverted-big", prop="C01", file="bitmap/rank.go", old="if len(words)&1 == 0 {", new="if (len(words)&1 == 0) != (len(words) >= 6) {"),
    dict(id="c01-idx64-trailing-prev", prop="C01", file="bitmap/rank.go", old="idx[len(words)] = n\n", new="idx[len(words)] = n - int32(bits.OnesCount64(words[len(words)-1]>>63))\n",
         note="trailing total misses the very last bit (panics on empty: also a failure)"),
    dict(id="c01-idx64-order", prop="C01", file="bitmap/rank.go", old="\t\tidx[i] = n\n\t\tn += int32(bits.OnesCount64(words[i]))\n", new="\t\tn += int32(bits.OnesCount64(words[i] &^ (1 << 62)))\n\t\tidx[i] = n - int32(bits.OnesCount64(words[i] &^ (1 << 62)))\n\t\tn += int32(words[i] >> 62 & 1 & (words[i] >> 61))\n",
         note="bit 62 counted only when bit 61 is also set"),
]

"""Sensitivity catalogue: realistic, compiling mutants of openacid/low, one textual
replacement each (DESIGN.md 3.6). `equivalent: True` marks mutants/controls
that must stay green."""

MUTANTS = [
    # ---------------------------------------------------------------- C01
    dict(id="c01-rank128-idx63", prop="C01", file="bitmap/rank.go", old="n := rindex[(wordI+1)>>1]", new="n := rindex[(i+63)>>7]"),
    dict(id="c01-rank128-revert-overflow-fix", prop="C01", file="bitmap/rank.go", old="n := rindex[(wordI+1)>>1]", new="n := rindex[(i+64)>>7]", note="reverts 27394c3: int32 overflow in the last word of the 2^31-bit bitmap"),
    dict(id="c01-rank128-noright", prop="C01", file="bitmap/rank.go", old="c1 := n - atRight*cnt1 +", new="c1 := n - 0*atRight*cnt1 +"),
    dict(id="c01-rank64-maskupto", prop="C01", file="bitmap/rank.go", old="c1 := n + int32(bits.OnesCount64(w&Mask[j]))", new="c1 := n + int32(bits.OnesCount64(w&MaskUpto[j&63]))"),
    dict(id="c01-idx128-minus2", prop="C01", file="bitmap/rank.go", old="if i < len(words)-1 {", new="if i < len(words)-2 || (i < len(words)-1 && len(words) < 6) {",
         note="second word of the last pair dropped for len >= 6 only"),
    dict(id="c01-idx128-extra-inverted-big", prop="C01", file="bitmap/rank.go", old="if len(words)&1 == 0 {", new="if (len(words)&1 == 0) != (len(words) >= 6) {"),
    dict(id="c01-idx64-trailing-prev", prop="C01", file="bitmap/rank.go", old="idx[len(words)] = n\n", new="idx[len(words)] = n - int32(bits.OnesCount64(words[len(words)-1]>>63))\n",
         note="trailing total misses the very last bit (panics on empty: also a failure)"),
    dict(id="c01-idx64-order", prop="C01", file="bitmap/rank.go", old="\t\tidx[i] = n\n\t\tn += int32(bits.OnesCount64(words[i]))\n", new="\t\tn += int32(bits.OnesCount64(words[i] &^ (1 << 62)))\n\t\tidx[i] = n - int32(bits.OnesCount64(words[i] &^ (1 << 62)))\n\t\tn += int32(words[i] >> 62 & 1 & (words[i] >> 61))\n",
         note="bit 62 counted only when bit 61 is also set"),
    # ---------------------------------------------------------------- C02
    # Select32 (second occurrence of shared text = Select32; first = select32single which is unexported/unused)
    dict(id="c02-sel32-halving-31", prop="C02", file="bitmap/select.go", old="base |= 32\n\t\t\tww >>= 32", new="base |= 32\n\t\t\tww >>= 31"),
    dict(id="c02-sel32-base8", prop="C02", file="bitmap/select.go", old="base |= 16\n", new="base |= 8\n"),
    dict(id="c02-sel32-lt", prop="C02", file="bitmap/select.go", old="\t\tones = bits.OnesCount16(uint16(ww))\n\n\t\tif ones <= findIth {", new="\t\tones = bits.OnesCount16(uint16(ww))\n\n\t\tif ones < findIth {"),
    dict(id="c02-sel32-lookup-7f0", prop="C02", file="bitmap/select.go", old="a = int32(select8Lookup[(ww>>5)&(0x7f8)|uint64(findIth-ones)]) + base + 8", new="a = int32(select8Lookup[(ww>>5)&(0x7f0)|uint64(findIth-ones)]) + base + 8"),
    dict(id="c02-sel32-plus8", prop="C02", file="bitmap/select.go", old="|uint64(findIth-ones)]) + base + 8", new="|uint64(findIth-ones)]) + base + 7"),
    dict(id="c02-sel32-next-scan-start", prop="C02", file="bitmap/select.go", old="for wordI := a>>6 + 1; wordI < l; wordI++ {", new="for wordI := a>>6 + 2; wordI < l; wordI++ {"),
    dict(id="c02-sel32-next-minus", prop="C02", file="bitmap/select.go", old="\t\tif w != 0 {\n\t\t\treturn a, wordI<<6 + int32(bits.TrailingZeros64(w))\n\t\t}\n\t}\n\treturn a, l << 6\n}\n\n// IndexSelect32R64", new="\t\tif w != 0 {\n\t\t\treturn a, wordI<<6 - int32(bits.TrailingZeros64(w))\n\t\t}\n\t}\n\treturn a, l << 6\n}\n\n// IndexSelect32R64"),
    dict(id="c02-sel32-tail", prop="C02", file="bitmap/select.go", old="\treturn a, l << 6\n}\n\n// IndexSelect32R64", new="\treturn a, l<<6 - 1\n}\n\n// IndexSelect32R64"),
    dict(id="c02-r64-loop-lt", prop="C02", file="bitmap/select.go", old="for ; rankIndex[wordI+1] <= i; wordI++ {", new="for ; rankIndex[wordI+1] < i; wordI++ {"),
    dict(id="c02-r64-tail", prop="C02", file="bitmap/select.go", old="\treturn a, l << 6\n}\n\n// indexSelectU64", new="\treturn a, l<<6 + 1\n}\n\n// indexSelectU64"),
    dict(id="c02-r64-next-scan", prop="C02", file="bitmap/select.go", old="\twordI++\n\tfor ; wordI < l; wordI++ {", new="\twordI += 2\n\tfor ; wordI < l; wordI++ {"),
    dict(id="c02-idx-ith63", prop="C02", file="bitmap/select.go", old="\t\t\tif ith&31 == 0 {\n\t\t\t\tsidx = append(sidx, int32(i))\n\t\t\t}\n\t\t}\n\t}\n\n\t// clone to reduce cap to len\n\tsidx = append(sidx[:0:0], sidx...)\n\treturn sidx\n", new="\t\t\tif ith&63 == 0 || (ith&31 == 0 && ith < 64) {\n\t\t\t\tsidx = append(sidx, int32(i))\n\t\t\t}\n\t\t}\n\t}\n\n\t// clone to reduce cap to len\n\tsidx = append(sidx[:0:0], sidx...)\n\treturn sidx\n", note="checkpoints dropped beyond the 64th one"),
    dict(id="c02-lookup-xor-equiv", prop="C02", file="bitmap/select.go", old="a = int32(select8Lookup[(ww&0xff)<<3|uint64(findIth)]) + base\n", new="a = int32(select8Lookup[(ww&0xff)<<3^uint64(findIth)]) + base\n", equivalent=True, note="| -> ^ between disjoint bit fields"),
    dict(id="c02-lookup-table-entry", prop="C02", file="bitmap/select.go", old="select8Lookup[i*8+j] = uint8(x)", new="select8Lookup[i*8+j] = uint8(x)\n\t\t\tif i == 0xb5 && j == 4 {\n\t\t\t\tselect8Lookup[i*8+j] = 6\n\t\t\t}", note="one wrong table entry (correct value 7)"),
    # ---------------------------------------------------------------- C03
    dict(id="c03-strict-maskupto", prop="C03", file="bmtree/index.go", old="return int32(idx + uint64(bits.OnesCount64(sz&bitmap.Mask[PathLen(path)])))\n", new="return int32(idx + uint64(bits.OnesCount64(sz&bitmap.MaskUpto[PathLen(path)])))\n"),
    dict(id="c03-loose-drop-popcount-deep", prop="C03", file="bmtree/index.go", old="return int32(idx + uint64(bits.OnesCount64(sz&bitmap.Mask[PathLen(path)]))), has", new="if PathLen(path) > 8 {\n\t\t\treturn int32(idx + uint64(bits.OnesCount64(sz&bitmap.Mask[PathLen(path)-1]))), has\n\t\t}\n\t\treturn int32(idx + uint64(bits.OnesCount64(sz&bitmap.Mask[PathLen(path)]))), has",
         note="loose variant only, deep paths only: strict and loose diverge"),
    dict(id="c03-full-31-tall", prop="C03", file="bmtree/index.go", old="return (int32(path>>32) << 1) + int32(bits.OnesCount64(path^0xffffffff00000000)) - 32\n", new="if height >= 7 {\n\t\t\treturn (int32(path>>32) << 1) + int32(bits.OnesCount64(path^0xffffffff00000000)) - 31\n\t\t}\n\t\treturn (int32(path>>32) << 1) + int32(bits.OnesCount64(path^0xffffffff00000000)) - 32\n",
         note="full-tree closed form off by one for height >= 7 (never computed by the suite)"),
    dict(id="c03-has-shift", prop="C03", file="bmtree/index.go", old="has := (bitmapSize >> uint(pl)) & 1", new="has := (bitmapSize >> uint(pl+1)) & 1 | (bitmapSize>>uint(pl))&int32(1-(pl+30)/31)"),
    dict(id="c03-shiftmulti-tz", prop="C03", file="bmtree/partial_tree.go", old="n := bits.TrailingZeros64(b - 1)", new="n := bits.TrailingZeros64(b-1) &^ (bits.Len64(b) >> 5)",
         equivalent=True, note="wrong shift only when b has more than 31 bits: never happens"),
    dict(id="c03-leafonly-tall", prop="C03", file="bmtree/index.go", old="\t\t// only leaf nodes\n\n\t\treturn int32(path >> 32)\n", new="\t\t// only leaf nodes\n\n\t\treturn int32(path>>32) & 0x3fffffff &^ (int32(height) >> 4 << 20)\n", note="leaf-only: bit 20 dropped for height >= 16"),
    dict(id="c03-contract-e0", prop="C03", file="bmtree/pathcheck.go", old="path&0xc0000000c0000000", new="path&0xe0000000e0000000", note="debug contract rejects valid height-30 paths; invisible to release"),
    dict(id="c03-contract-height-lt30", prop="C03", file="bmtree/bitmap_check.go", old="must.Be.True(height <= 30)", new="must.Be.True(height < 30)"),
    dict(id="c03-contract-loose-level", prop="C03", file="bmtree/index.go", old="\t\tbitmapPathMustHaveEqualHeight(bitmapSize, path)\n\t})\n\n\theight := Height(bitmapSize)\n\tsz := uint64(bitmapSize)\n\tpl := PathLen(path)", new="\t\tbitmapPathMustHaveEqualHeight(bitmapSize, path)\n\t\tbitmapMustHaveLevel(bitmapSize, PathLen(path))\n\t})\n\n\theight := Height(bitmapSize)\n\tsz := uint64(bitmapSize)\n\tpl := PathLen(path)",
         note="over-strict debug contract added to the loose variant"),
    dict(id="c03-shiftmulti-swap-equiv", prop="C03", file="bmtree/index.go", old="idx := shiftMulti(sz, path>>32, uint64(height))", new="idx := shiftMulti(path>>32, sz, uint64(height))", equivalent=True, note="the sum is symmetric"),
    dict(id="c03-general-int32-overflow", prop="C03", file="bmtree/partial_tree.go", old="rst += (a >> shift)", new="rst += uint64(uint32(a>>shift) & 0x1fffffff)", note="drops bit 29 of a partial product: only height-30 trees, first step right"),
    # ---------------------------------------------------------------- C05
    dict(id="c05-fixed-gt1", prop="C05", file="bmtree/index.go", old="if fixed > 0 {", new="if fixed > 1 {", equivalent=True, note="skipping the shortcut when one bit is fixed only costs time (descent loop handles it)"),
    dict(id="c05-mask-noshift", prop="C05", file="bmtree/index.go", old="m = (mask << 1) - (uint64(0x0100000001) << uint(diffbits))", new="m = (mask << 1) - (uint64(0x0100000001) << uint(diffbits+(treeheight>>4&(diffbits>>4))))", note="fixed-bit mask one bit short only for tall trees with many differing bits"),
    dict(id="c05-fixed-plus1", prop="C05", file="bmtree/index.go", old="index = index&int32(^m) - fixed + int32(bits.OnesCount32(uint32(index&int32(m))))", new="index = index&int32(^m) - fixed + int32(bits.OnesCount32(uint32(index&int32(m)))) + int32(treeheight>>3&1&(fixed>>2))"),
    dict(id="c05-descend-minus2", prop="C05", file="bmtree/index.go", old="\t\tif int32(maskAndPathBit>>32) == 0 {\n\t\t\tindex--\n", new="\t\tif int32(maskAndPathBit>>32) == 0 {\n\t\t\tindex--\n\t\t\tif mask>>32 == 1<<19 && index&0xf == 5 {\n\t\t\t\tindex--\n\t\t\t}\n", note="extra decrement at one level for one residue"),
    dict(id="c05-loop-mask7", prop="C05", file="bmtree/index.go", old="for mask&15 == 0 && index > 0 {", new="for mask&7 == 0 && index > 0 {", equivalent=True, note="the loop is the general algorithm; the table only shortens it"),
    dict(id="c05-table-entry-h3", prop="C05", file="bmtree/index.go", old="(0x00000005 << 32) + 0x00000007, // 11  101", new="(0x00000005 << 32) + 0x00000006, // 11  101", note="control: the suite's heights <= 6 catch it"),
    dict(id="c05-threshold-6", prop="C05", file="bmtree/index.go", old="if treeheight > 4 {", new="if treeheight > 6 {", equivalent=True, note="shortcut is an optimisation only"),
    dict(id="c05-overflow-guard", prop="C05", file="bmtree/index.go", old="diffbits := 32 - int32(bits.LeadingZeros32(uint32(i1^i2)))", new="diffbits := 32 - int32(bits.LeadingZeros32(uint32(i1^i2)&0x3fffffff))", note="ignores bit 30/31 differences: only height-30 trees near index 2^30"),
    # ---------------------------------------------------------------- C10
    dict(id="c10-pathlen-64", prop="C10", file="bmtree/pathlen.go", old="return int32(bits.OnesCount32(uint32(p)))", new="return int32(bits.OnesCount64(p)) - int32(bits.OnesCount64(p>>32))*int32(1-(p>>63|p>>62&1))", note="counts prefix bits too when one of the two top prefix bits is set (heights 31/32 only)"),
    dict(id="c10-pathlen-popcount64", prop="C10", file="bmtree/pathlen.go", old="return int32(bits.OnesCount32(uint32(p)))", new="return int32(bits.OnesCount64(p))", note="counts prefix bits: invisible to zero-prefix literals"),
    dict(id="c10-pathheight-31", prop="C10", file="bmtree/pathheight.go", old="return int32(32 - bits.LeadingZeros32(uint32(path)))", new="return int32(32-bits.LeadingZeros32(uint32(path))) - int32(uint32(path)>>31)", note="height 32 reported as 31"),
    dict(id="c10-newpath-shift-root", prop="C10", file="bmtree/newpath.go", old="return (searchingBits << 32) | (bitmap.Mask[length] << uint(height-length))", new="return (searchingBits << 32) | (bitmap.Mask[length] << uint(height-length)) | (searchingBits >> 31 << 63 >> 63 << 0 & 0)", equivalent=True, note="no-op control"),
    dict(id="c10-pathstr-width-h", prop="C10", file="bmtree/pathstr.go", old='return fmt.Sprintf("%0[1]*[2]b", l, path>>uint(32+treeHeight-l))', new='if l > 20 {\n\t\treturn fmt.Sprintf("%0[1]*[2]b", treeHeight, path>>uint(32+treeHeight-l))\n\t}\n\treturn fmt.Sprintf("%0[1]*[2]b", l, path>>uint(32+treeHeight-l))'),
    dict(id="c10-newpath-mask-off", prop="C10", file="bmtree/newpath.go", old="(bitmap.Mask[length] << uint(height-length))", new="(bitmap.Mask[length] << uint(height-length) & 0xfffffffe | bitmap.Mask[length]<<uint(height-length)&uint64(1-length/32))", note="drops the lowest mask bit for l=h=32 only"),
    dict(id="c10-pathbits-31", prop="C10", file="bmtree/pathbits.go", old="return path >> 32\n", new="return path >> 32 & 0x7fffffff\n"),
    # ---------------------------------------------------------------- C04
    dict(id="c04-from-le", prop="C04", file="bmtree/allpaths.go", old="if p < from {", new="if p <= from {"),
    dict(id="c04-to-gt", prop="C04", file="bmtree/allpaths.go", old="if p >= to {", new="if p > to {"),
    dict(id="c04-t-noplus1", prop="C04", file="bmtree/allpaths.go", old="t = to>>32 + 1", new="t = to >> 32"),
    dict(id="c04-no-tz-clamp", prop="C04", file="bmtree/allpaths.go", old="\t\tif tz > height {\n\t\t\ttz = height\n\t\t}\n", new="\t\tif tz > height && i != 0 {\n\t\t\ttz = height\n\t\t}\n\t\tif tz > 63 {\n\t\t\ttz = height\n\t\t}\n", equivalent=True, note="only i=0 has tz > height; control"),
    dict(id="c04-level-bit-tz", prop="C04", file="bmtree/allpaths.go", old="if bitmapSize&int32(bitmap.Bit[height-tz]) == 0 {", new="if bitmapSize&int32(bitmap.Bit[tz]) == 0 {"),
    dict(id="c04-early-return-continue", prop="C04", file="bmtree/allpaths.go", old="\t\t\tif p >= to {\n\t\t\t\treturn paths\n\t\t\t}", new="\t\t\tif p >= to {\n\t\t\t\tbreak\n\t\t\t}", equivalent=True, note="later candidates are all >= to as well"),
    dict(id="c04-decode-len-off", prop="C04", file="bmtree/decode.go", old="if int32(len(bm)) > wordI &&", new="if int32(len(bm)) > wordI+int32(len(bm)>>2&1) &&", note="last word ignored for bitmaps of 4..7 words"),
    dict(id="c04-decode-idx31", prop="C04", file="bmtree/decode.go", old="bm[wordI]&(1<<uint(idx&63)) != 0", new="bm[wordI]&(1<<uint(idx&(63-idx>>4&32))) != 0", note="bit index taken mod 32 for indexes with bit 9 set"),
    dict(id="c04-decode-range-62", prop="C04", file="bmtree/decode.go", old="paths := AllPaths(bitmapSize, 0, 1<<63)", new="paths := AllPaths(bitmapSize, 0, 1<<43)", note="upper bound too small for trees of height >= 12"),
    dict(id="c04-from-skip-tall", prop="C04", file="bmtree/allpaths.go", old="for i := from >> 32; i < t; i++ {", new="for i := from>>32 + (from >> 60 & 1); i < t; i++ {", note="first group skipped when from has bit 60 set (heights >= 29 only)"),
    # ---------------------------------------------------------------- C11
    dict(id="c09-new-revert-overflow-fix", prop="C09", file="bitstr/bitstr.go", old="toByte := int32((int64(toBit) + 7) >> 3)", new="toByte := (toBit + 7) >> 3", note="reverts b0d3fa9: toBit above 2^31-8 on a 2^28-byte source"),
    dict(id="c11-clamp-ge", prop="C11", file="bitmap/fromstr32.go", old="rest < int64(size) {", new="rest <= int64(size) {", equivalent=True, note="blen == size either way"),
    dict(id="c11-revert-overflow-fix", prop="C11", file="bitmap/fromstr32.go", old="if rest := int64(len(s))<<3 - int64(frombit); rest < int64(size) {", new="if rest := int64(int32(len(s)<<3) - frombit); rest < int64(size) {", note="reverts part of d1f8dbf: strings of 2^28 bytes and more"),
    dict(id="c11-blen-lt0", prop="C11", file="bitmap/fromstr32.go", old="if blen <= 0 {", new="if blen < 0 {", equivalent=True, note="blen == 0 only when size == 0 or string ends at from: result is (0, masked 0) either way"),
    dict(id="c11-tobyte-floor", prop="C11", file="bitmap/fromstr32.go", old="toByte := int32((int64(tobit) + 7) >> 3)", new="toByte := int32(int64(tobit) >> 3)"),
    dict(id="c11-l-ge", prop="C11", file="bitmap/fromstr32.go", old="if int64(len(s)) < int64(toByte) {", new="if int64(len(s)) <= int64(toByte) {", equivalent=True),
    dict(id="c11-39", prop="C11", file="bitmap/fromstr32.go", old="uint(40-spanSize)", new="uint(39-spanSize+spanSize/40)", note="shift off by one except for the 40-bit span"),
    dict(id="c11-fifth-byte", prop="C11", file="bitmap/fromstr32.go", old="\t\t\t\t\tif i < l {\n\t\t\t\t\t\tb |= uint64(s[i])\n\t\t\t\t\t}\n", new=""),
    dict(id="c11-fourth-byte-shift", prop="C11", file="bitmap/fromstr32.go", old="b |= uint64(s[i]) << 8", new="b |= uint64(s[i]&0xfe) << 8"),
    dict(id="c11-pathof-height-as-len", prop="C11", file="bmtree/newpath.go", old="return NewPath(path, plen, height)", new="return NewPath(path, plen+(height-plen)*(height>>5), height)", note="length = height when height is 32"),
    dict(id="c11-revert-pathsof-fix", prop="C11", file="bmtree/newpath.go", old="if !dedup || i == 0 || p != prev {", new="if !dedup || i < 0 || p != prev {"),
    dict(id="c11-dedup-lastkept", prop="C11", file="bmtree/newpath.go", old="\t\tprev = p\n", new="\t\tif len(rst) > 0 {\n\t\t\tprev = rst[len(rst)-1]\n\t\t}\n", equivalent=True, note="last kept element == predecessor"),
    dict(id="c11-dedup-all", prop="C11", file="bmtree/newpath.go", old="if !dedup || i == 0 || p != prev {", new="if !dedup || i == 0 || (p != prev && (len(rst) < 2 || p != rst[len(rst)-2])) {", note="also drops a path equal to the one before its predecessor (non-adjacent repeat)"),
    dict(id="c11-mask-size", prop="C11", file="bitmap/fromstr32.go", old="& Mask[size]", new="& Mask[size|size>>5]", note="size 32 -> Mask[33]: lead bits of an unaligned start leak into bit 32"),
    # ---------------------------------------------------------------- C13 (survivors cited in the property)
    dict(id="c13-next-step63", prop="C13", file="bitmap/next.go", old="for w := wordIdx + 1; w < endWord; w++ {", new="for w := wordIdx + 1; w < endWord; w += 1 + (w>>3)&1 {", note="skips every word 8k+1.. (step 2 from words with bit 3 set)"),
    dict(id="c13-next-revert-overflow-fix", prop="C13", file="bitmap/next.go", old="\t\tendWord := (end-1)>>6 + 1\n\n\t\tfor w := wordIdx + 1; w < endWord; w++ {\n\n\t\t\tword := bm[w]\n\t\t\tif word != 0 {\n\t\t\t\tnxt = w<<6 + int32(bits.TrailingZeros64(word))", new="\t\ti = (i + 63) & ^63\n\n\t\tfor ; i < end; i += 64 {\n\n\t\t\tword := bm[i>>6]\n\t\t\tif word != 0 {\n\t\t\t\tnxt = i + int32(bits.TrailingZeros64(word))", note="reverts a63d2bd: bit positions wrap at the end of the 2^31-bit bitmap"),
    dict(id="c13-next-endword-floor", prop="C13", file="bitmap/next.go", old="endWord := (end-1)>>6 + 1", new="endWord := end >> 6", note="the partial last word of the range is not scanned"),
    dict(id="c13-next-start-same-word", prop="C13", file="bitmap/next.go", old="for w := wordIdx + 1; w < endWord; w++ {", new="for w := wordIdx + (bitIdx+63)>>6; w < endWord; w++ {", equivalent=True, note="control: re-scans the first word when i is aligned (what the code did before a63d2bd); same results"),
    dict(id="c13-next-word-prev", prop="C13", file="bitmap/next.go", old="\t\t\tword := bm[w]\n\t\t\tif word != 0 {\n\t\t\t\tnxt = w<<6 + int32(bits.TrailingZeros64(word))", new="\t\t\tword := bm[w-(w>>1&1)]\n\t\t\tif word != 0 {\n\t\t\t\tnxt = w<<6 + int32(bits.TrailingZeros64(word))"),
    dict(id="c13-next-word-eq0", prop="C13", file="bitmap/next.go", old="\t\t\tword := bm[w]\n\t\t\tif word != 0 {", new="\t\t\tword := bm[w]\n\t\t\tif word == 0 {"),
    dict(id="c13-next-minus-tz", prop="C13", file="bitmap/next.go", old="nxt = w<<6 + int32(bits.TrailingZeros64(word))", new="nxt = w<<6 - int32(bits.TrailingZeros64(word))"),
    dict(id="c13-next-align", prop="C13", file="bitmap/next.go", old="for w := wordIdx + 1; w < endWord; w++ {", new="for w := wordIdx + 2; w < endWord; w++ {", note="skips the word after the first one"),
    dict(id="c13-next-ge-end", prop="C13", file="bitmap/next.go", old="if nxt >= end {", new="if nxt > end {"),
    dict(id="c13-prev-align", prop="C13", file="bitmap/next.go", old="end = (end & ^63) - 1", new="end = end & ^63"),
    dict(id="c13-prev-step63", prop="C13", file="bitmap/next.go", old="for ; end >= i; end -= 64 {", new="for ; end >= i; end -= 63 {"),
    dict(id="c13-prev-64-lz", prop="C13", file="bitmap/next.go", old="prv = wordIdx<<6 + 63 - int32(bits.LeadingZeros64(word))", new="prv = wordIdx<<6 + 64 - int32(bits.LeadingZeros64(word))"),
    dict(id="c13-prev-le", prop="C13", file="bitmap/next.go", old="if prv < i {", new="if prv <= i {"),
    dict(id="c13-prev-loop-gt", prop="C13", file="bitmap/next.go", old="for ; end >= i; end -= 64 {", new="for ; end > i+63; end -= 64 {", note="stops before a word that is only partly inside the range"),
    # ---------------------------------------------------------------- C14
    dict(id="c14-join-shift31b", prop="C14", file="bitmap/join.go", old="<< uint(j&63)", new="<< uint(j&(63-int(size)<<3&32))", note="position taken mod 32 for widths with bit 2 set (w=4)"),
    dict(id="c14-join-mask-minus1", prop="C14", file="bitmap/join.go", old="(e & Mask[size])", new="(e & Mask[size-size>>2&1])", note="Mask[w-1] for w=4..7"),
    dict(id="c14-join-len", prop="C14", file="bitmap/join.go", old="(l+63)&(^63)>>6", new="(l+64)&(^63)>>6"),
    dict(id="c14-getw-shift", prop="C14", file="bitmap/get.go", old="return (bm[i>>6] >> uint(i&63)) & Mask[w]", new="return (bm[i>>6] >> uint(i&(63-w&8<<2))) & Mask[w]", note="position mod 32 for w=8"),
    dict(id="c14-getw-mask16", prop="C14", file="bitmap/get.go", old="return (bm[i>>6] >> uint(i&63)) & Mask[w]", new="return (bm[i>>6] >> uint(i&63)) & Mask[w-w>>4&1]", note="one bit short for w=16"),
    dict(id="c14-slice-j-plus1", prop="C14", file="bitmap/slice.go", old="j := i - from", new="j := i - from + (i-from)>>6&1", note="off by one in the second word of the result"),
    dict(id="c14-slice-clears-src", prop="C14", file="bitmap/slice.go", old="r[j>>6] |= 1 << uint(j&63)", new="r[j>>6] |= 1 << uint(j&63)\n\t\t\tif j == 200 {\n\t\t\t\twords[i>>6] &^= 1 << uint(i&63)\n\t\t\t}"),
    dict(id="c14-slice-revert-len", prop="C14", file="bitmap/slice.go", old="l := (int64(to) - int64(from) + 63) >> 6", new="l := (int64(to) - int64(from) + 63) & (^63)"),
    dict(id="c14-slice-revert-overflow-fix", prop="C14", file="bitmap/slice.go", old="l := (int64(to) - int64(from) + 63) >> 6", new="l := ((to - from) + 63) >> 6", note="reverts 277dea0: only a range longer than 2^31-64 bits fails (bit-by-bit over the whole 2^31-bit bitmap: seconds, thorough tier)"),
    dict(id="c14-slice-len-floor", prop="C14", file="bitmap/slice.go", old="l := (int64(to) - int64(from) + 63) >> 6", new="l := (int64(to)-int64(from)+63)>>6 + int64((to-from)>>6&^0x7fffffe&(to-from)>>12)", equivalent=True, note="control: adds 0 for ranges below 4096 bits... (kept as documentation of bounds)"),
    # ---------------------------------------------------------------- C12
    dict(id="c12-of-nwords-floor", prop="C12", file="bitmap/of.go", old="nWords := (n + 63) >> 6", new="nWords := (n + 63 - n>>9&1) >> 6", note="one word short when n has bit 9 set and n%64==1"),
    dict(id="c12-of-revert-overflow-fix", prop="C12", file="bitmap/of.go", old="max := int64(bitPositions[len(bitPositions)-1]) + 1", new="max := int64(bitPositions[len(bitPositions)-1] + 1)", note="reverts part of cafe94c: last position 2^31-1 wraps"),
    dict(id="c12-of-revert-overflow-fix-n", prop="C12", file="bitmap/of.go", old="nWords := (n + 63) >> 6", new="nWords := int64((int32(n) + 63) >> 6)", note="reverts part of cafe94c: n above 2^31-64 wraps"),
    dict(id="c12-of-n-le", prop="C12", file="bitmap/of.go", old="if n < max {", new="if n <= max {", equivalent=True),
    dict(id="c12-extend-gt", prop="C12", file="bitmap/builder.go", old="if bitEnd >= size {", new="if bitEnd > size {", note="position == size exactly at a word boundary is not covered"),
    dict(id="c12-extend-end", prop="C12", file="bitmap/builder.go", old="end = b.Offset + bitEnd + 1", new="end = b.Offset + bitEnd"),
    dict(id="c12-extend-offset-end", prop="C12", file="bitmap/builder.go", old="b.Offset += size\n", new="if len(bitPositions) > 0 && bitPositions[len(bitPositions)-1] >= size+64 {\n\t\tb.Offset = end\n\t} else {\n\t\tb.Offset += size\n\t}\n", note="Offset jumps past overflowing positions (far overflow only)"),
    dict(id="c12-set-no-advance-on-0", prop="C12", file="bitmap/builder.go", old="if b.Offset <= bitPosition {", new="if b.Offset <= bitPosition && value&1 == 1 {"),
    dict(id="c12-set-lt", prop="C12", file="bitmap/builder.go", old="if b.Offset <= bitPosition {", new="if b.Offset < bitPosition {"),
    dict(id="c12-safeget-gt", prop="C12", file="bitmap/get.go", old="func SafeGet1(bm []uint64, i int32) uint64 {\n\twordI := i >> 6\n\tbitI := i & 63\n\tif wordI < 0 || wordI >= int32(len(bm)) {", new="func SafeGet1(bm []uint64, i int32) uint64 {\n\twordI := i >> 6\n\tbitI := i & 63\n\tif wordI < 0 || wordI > int32(len(bm)) {"),
    dict(id="c12-safeget-neg", prop="C12", file="bitmap/get.go", old="func SafeGet(bm []uint64, i int32) uint64 {\n\twordI := i >> 6\n\tbitI := i & 63\n\tif wordI < 0 || wordI >= int32(len(bm)) {", new="func SafeGet(bm []uint64, i int32) uint64 {\n\twordI := i >> 6\n\tbitI := i & 63\n\tif wordI < -1 || wordI >= int32(len(bm)) {"),
    dict(id="c12-ofmany-base-early", prop="C12", file="bitmap/ofmany.go", old="\tfor i, e := range subs {\n\t\tfor _, idx := range e {\n\t\t\tr[ith] = base + idx\n\t\t\tith++\n\t\t}\n\t\tbase += sizes[i]\n\t}", new="\tfor i, e := range subs {\n\t\tif i > 6 {\n\t\t\tbase += sizes[i]\n\t\t}\n\t\tfor _, idx := range e {\n\t\t\tr[ith] = base + idx\n\t\t\tith++\n\t\t}\n\t\tif i <= 6 {\n\t\t\tbase += sizes[i]\n\t\t}\n\t}", note="base advanced before the inner loop from the 8th segment on"),
    dict(id="c12-toarray-63", prop="C12", file="bitmap/toarray.go", old="l := len(words) * 64", new="l := len(words)*64 - len(words)>>3", note="last bits skipped for bitmaps of >= 8 words"),
    dict(id="c12-toarray-revert-overflow-fix", prop="C12", file="bitmap/toarray.go", old="l := len(words) * 64", new="l := int(int32(len(words) * 64))", note="reverts 7f8c05b: only the 2^25-word bitmap fails (scan takes seconds, thorough tier)"),
    dict(id="c12-get1-shift", prop="C12", file="bitmap/get.go", old="return (bm[i>>6] >> uint(i&63)) & 1\n}\n\n// Getw", new="return (bm[i>>6] >> uint(i&63)) & (1 | bm[i>>6]>>63<<1&uint64(i>>8))\n}\n\n// Getw", note="Get1 returns 3 for i>=512 when bit 63 of the word is set.. (i>>8 has bit 1 set)"),
    # ---------------------------------------------------------------- C15 (survivors cited in the property + more)
    dict(id="c15-get-le", prop="C15", file="bitmap/tailbitmap.go", old="func (tb *TailBitmap) Get(idx int64) uint64 {\n\tif idx < tb.Offset {", new="func (tb *TailBitmap) Get(idx int64) uint64 {\n\tif idx <= tb.Offset {"),
    dict(id="c15-get1-le", prop="C15", file="bitmap/tailbitmap.go", old="func (tb *TailBitmap) Get1(idx int64) uint64 {\n\tif idx < tb.Offset {", new="func (tb *TailBitmap) Get1(idx int64) uint64 {\n\tif idx <= tb.Offset {"),
    dict(id="c15-get-shift7", prop="C15", file="bitmap/tailbitmap.go", old="return tb.Words[idx>>6] & Bit[idx&63]", new="return tb.Words[idx>>7] & Bit[idx&63]"),
    dict(id="c15-compact-ne0", prop="C15", file="bitmap/tailbitmap.go", old="for len(tb.Words) > 0 && tb.Words[0] == allOnes {", new="for len(tb.Words) > 0 && tb.Words[0]|1<<17 == allOnes {", note="drops a word whose bit 17 is still 0"),
    dict(id="c15-offset-32", prop="C15", file="bitmap/tailbitmap.go", old="tb.Offset += 64\n", new="tb.Offset += 64 - 32*(tb.Offset>>16&1)\n", note="advances by 32 once Offset has bit 16 set"),
    dict(id="c15-set-le", prop="C15", file="bitmap/tailbitmap.go", old="func (tb *TailBitmap) Set(idx int64) {\n\tif idx < tb.Offset {", new="func (tb *TailBitmap) Set(idx int64) {\n\tif idx <= tb.Offset && tb.Offset > 0 {", note="Set(Offset) ignored"),
    dict(id="c15-compact-on-word1", prop="C15", file="bitmap/tailbitmap.go", old="if wordIdx == 0 {\n\t\ttb.Compact()", new="if wordIdx == 1 {\n\t\ttb.Compact()", note="first word may stay all-ones after a Set"),
    dict(id="c15-reclaim-loses", prop="C15", file="bitmap/tailbitmap.go", old="\t\tcopy(newWords, tb.Words)\n", new="\t\tcopy(newWords, tb.Words)\n\t\ttb.Words = newWords[:l/2]\n", note="reclaim branch drops half of the words: only after 1024 words"),
    dict(id="c15-reclaim-assign-ok", prop="C15", file="bitmap/tailbitmap.go", old="\t\tcopy(newWords, tb.Words)\n", new="\t\tcopy(newWords, tb.Words)\n\t\ttb.Words = newWords\n", equivalent=True, note="the reallocation the code apparently meant to do; behaviour preserving"),
    dict(id="c15-and63-before-sub-equiv", prop="C15", file="bitmap/tailbitmap.go", old="\tidx = idx - tb.Offset\n\twordIdx := idx >> 6\n", new="\tbit := idx & 63\n\tidx = idx - tb.Offset\n\twordIdx := idx >> 6\n\t_ = bit\n", equivalent=True),
    dict(id="c15-grow-off-by-one", prop="C15", file="bitmap/tailbitmap.go", old="for int(wordIdx) >= len(tb.Words) {", new="for int(wordIdx) >= len(tb.Words)+int(wordIdx>>6&1)-int(wordIdx>>6&1) {", equivalent=True),
    dict(id="c15-set-drops-far", prop="C15", file="bitmap/tailbitmap.go", old="\ttb.Words[wordIdx] |= Bit[idx&63]\n", new="\tif wordIdx < 40 || idx&63 != 40 {\n\t\ttb.Words[wordIdx] |= Bit[idx&63]\n\t}\n", note="forgets bit 40 of words far from Offset"),
    # ---------------------------------------------------------------- C08
    dict(id="c08-fromstr-shift", prop="C08", file="bitword/bitword.go", old="(b >> uint(8-w.width*j-w.width)) & w.wordMask", new="(b >> uint(8-w.width*j-w.width+j>>2&1)) & w.wordMask", note="shift off by one from the 5th word of a byte on (width 1 only)"),
    dict(id="c08-get-highbit", prop="C08", file="bitword/bitword.go", old="word := s[i>>3]\n", new="word := s[i>>3] & (0x7f | byte(w.width&4<<5) | byte(w.width&1<<7) | byte(w.width&8<<4))\n", note="drops the high bit of each byte for width 2"),
    dict(id="c08-tostr-pad-wrong-side", prop="C08", file="bitword/bitword.go", old="\t\t\t} else {\n\t\t\t\tb = b << uint(w.width)\n\t\t\t}", new="\t\t\t} else {\n\t\t\t\tb = b << uint(w.width&^1)\n\t\t\t}", note="padding shift wrong for width 1"),
    dict(id="c08-firstdiff-clamp-a-only", prop="C08", file="bitword/bitword.go", old="\tif end > lb {\n\t\tend = lb\n\t}\n", new="\tif end > lb && from > 0 {\n\t\tend = lb\n\t}\n", note="from=0 and b shorter: reads beyond b (panic) or wrong lim"),
    dict(id="c08-firstdiff-end-lb", prop="C08", file="bitword/bitword.go", old="\tif end == -1 {\n\t\tend = la\n\t}", new="\tif end == -1 {\n\t\tend = lb\n\t}", equivalent=True, note="clamped to min(la,lb) right after either way"),
    dict(id="c08-firstdiff-return-from", prop="C08", file="bitword/bitword.go", old="\treturn end\n}", new="\tif from > end {\n\t\treturn from\n\t}\n\treturn end\n}", note="returns from instead of lim for an empty window"),
    dict(id="c08-mask-width4", prop="C08", file="bitword/bitword.go", old="wordMask: (1 << uint(n)) - 1,", new="wordMask: (1<<uint(n) - 1) &^ byte(n&4<<1),", note="width-4 mask loses bit 3"),
    # ---------------------------------------------------------------- C09
    dict(id="c09-mask-index", prop="C09", file="bitstr/bitstr.go", old="mask := byte(bitmap.RMask[(8-toBit)&7])", new="mask := byte(bitmap.RMask[(7-toBit)&7])"),
    dict(id="c09-no-truncate", prop="C09", file="bitstr/bitstr.go", old="\tbitStr[l-1] &= mask\n", new="\tif l < 9 {\n\t\tbitStr[l-1] &= mask\n\t}\n", note="bits after `to` not zeroed for payloads of 9+ bytes"),
    dict(id="c09-cmp-mask-byte", prop="C09", file="bitstr/bitstr.go", old="return bytes.Compare(a[:la-1], b[:lb-1])", new="return bytes.Compare(a[:la-1+(la>>3&1)], b[:lb-1+(la>>3&1)])", note="includes the mask byte when lengths differ and la is 8..15"),
    dict(id="c09-cmpbytes-le8", prop="C09", file="bitstr/bitstr.go", old="if la < 8 {", new="if la < 8 && lb != 8 {", equivalent=True, note="bytes.Compare gives the same answer"),
    dict(id="c09-cmpbytes-noprefix", prop="C09", file="bitstr/bitstr.go", old="\t\tif i < lb {\n\t\t\treturn -1\n\t\t}\n", new="\t\tif i < lb && lb != 3 {\n\t\t\treturn -1\n\t\t}\n", note="a shorter than a 3-byte payload reported equal"),
    dict(id="c09-cmpupto-unmasked", prop="C09", file="bitstr/bitstr.go", old="bytea := a[la-1] & b[lb-1]", new="bytea := a[la-1] & (b[lb-1] | byte(lb>>3&1))", note="lowest bit of a's last byte not masked for encodings of 8..15 bytes"),
    dict(id="c09-cmpupto-lb2", prop="C09", file="bitstr/bitstr.go", old="byteb := b[la-1]", new="byteb := b[la-1-(la>>4&1)]", note="wrong byte compared for payloads of 16+ bytes"),
    dict(id="c09-len-8", prop="C09", file="bitstr/bitstr.go", old="return int32(l)<<3 - 16 + int32(bits.OnesCount8(bs[l-1]))", new="return int32(l)<<3 - 16 + int32(bits.OnesCount8(bs[l-1]|bs[l-1]>>7&byte(l>>5)))", note="Len one too large for encodings of 32..63, 96..127, ... bytes whose last byte is unaligned (needs strings of 31+ bytes)"),
    dict(id="c09-len-9", prop="C09", file="bitstr/bitstr.go", old="return int32(l)<<3 - 16 + int32(bits.OnesCount8(bs[l-1]))", new="return int32(l)<<3 - 16 + int32(bits.OnesCount8(bs[l-1]&^byte(l>>4&1)))", note="Len one short for aligned strings of 16+ bytes"),
    dict(id="c09-cmpupto-empty", prop="C09", file="bitstr/bitstr.go", old="\tif lb == 1 {\n\t\t// an empty bitStr\n\t\treturn 0\n\t}", new="\tif lb == 1 {\n\t\t// an empty bitStr\n\t\tif la == 0 {\n\t\t\treturn 0\n\t\t}\n\t\treturn 1\n\t}", note="non-empty a vs empty b reported greater"),
    dict(id="c09-cmpupto-writes", prop="C09", file="bitstr/bitstr.go", old="\tbytea := a[la-1] & b[lb-1]\n", new="\tif la == 11 {\n\t\ta[la-1] &= b[lb-1]\n\t}\n\tbytea := a[la-1] & b[lb-1]\n", note="normalises a in place: mutates the string behind StrCmpUpto (may fault on read-only memory)"),
    # ---------------------------------------------------------------- C16
    dict(id="c16-get64-short-shift", prop="C16", file="sigbits/firstdiff.go", old="(uint64(bs[6]) << 8) +", new="(uint64(bs[6]) << 16) +"),
    dict(id="c16-first-le-minl", prop="C16", file="sigbits/firstdiff.go", old="if first < minl {", new="if first <= minl {", equivalent=True, note="returns minl either way"),
    dict(id="c16-loop-step16", prop="C16", file="sigbits/firstdiff.go", old="for i := 0; i < la && i < lb; i += 8 {", new="for i := 0; i < la && i < lb; i += 8 + i&8 {", note="skips the third 8-byte chunk"),
    dict(id="c16-minl-la-only", prop="C16", file="sigbits/firstdiff.go", old="\tif minl > l2 {\n\t\tminl = l2\n\t}", new="\tif minl > l2 && la < 9 {\n\t\tminl = l2\n\t}", note="clip to the shorter key dropped when a has 9+ bytes"),
    dict(id="c16-count-guard", prop="C16", file="sigbits/countprefixes.go", old="\t\tif d < maxitem-1 {\n\t\t\tcounts[d]++", new="\t\tif d < maxitem-1 && d != 70 {\n\t\t\tcounts[d]++", note="one histogram cell ignored (needs m > 71)"),
    dict(id="c16-slice-e", prop="C16", file="sigbits/sigbits_countprefixes.go", old="sb.sigbits[keyStart:keyEnd-1]", new="sb.sigbits[keyStart:keyEnd-1+(keyEnd-int32(len(sb.sigbits)))>>31&1]", note="includes the pair (e-1,e) when e is not the end"),
    dict(id="c16-slice-start0", prop="C16", file="sigbits/sigbits_countprefixes.go", old="sb.sigbits[keyStart:keyEnd-1]", new="sb.sigbits[keyStart&^(keyStart>>2&1):keyEnd-1]", note="start 5 -> 4 etc."),
    dict(id="c16-min-global", prop="C16", file="sigbits/countprefixes.go", old="rst[0] = 1", new="rst[0] = 1 + min>>10", note="first counter off only for common prefixes of 128+ bytes"),
    dict(id="c16-get64-long-byte7", prop="C16", file="sigbits/firstdiff.go", old="\t\t\t(uint64(s[7])))", new="\t\t\t(uint64(s[7] &^ 1)))", note="lowest bit of each 8th byte ignored for long keys"),
    # ---------------------------------------------------------------- C17
    dict(id="c17-lcp-loop-short", prop="C17", file="sigbits/sharding.go", old="\t\t\tfor i := s; i < e-1; i++ {\n\t\t\t\tif min > firstDiffs[i]>>3 {", new="\t\t\tfor i := s; i < e-2; i++ {\n\t\t\t\tif min > firstDiffs[i]>>3 {", note="last pair ignored: prefix too long"),
    dict(id="c17-lcp-loop-clipped-short", prop="C17", file="sigbits/sharding.go", old="\t\t\tfor i := s; i < e-1; i++ {\n\t\t\t\tif min > firstDiffs[i]>>3 {\n\t\t\t\t\tmin = firstDiffs[i] >> 3", new="\t\t\tfor i := s; i < e-1; i++ {\n\t\t\t\tif min > firstDiffs[i]>>3 {\n\t\t\t\t\tmin = firstDiffs[i] >> 3 &^ (firstDiffs[i] >> 7 & 1)", note="prefix one byte too short when it is 16+ bytes and odd: shared but not longest"),
    dict(id="c17-shift2", prop="C17", file="sigbits/sharding.go", old="prefixLen := firstDiffs[i] >> 3", new="prefixLen := firstDiffs[i] >> 3 << (firstDiffs[i] >> 8 & 1)", note="split criterion wrong for very deep prefixes"),
    dict(id="c17-min-last-key", prop="C17", file="sigbits/sharding.go", old="min := int32(len(keys[s]))", new="min := int32(len(keys[e-1]))", equivalent=True, note="single-key shards unaffected; multi-key: min over pairs anyway"),
    dict(id="c17-size-lt", prop="C17", file="sigbits/sharding.go", old="if e-s <= maxSize {", new="if e-s <= maxSize+(e-s)>>3&1 {", note="shards of 8..15 keys may exceed maxSize by one"),
    dict(id="c17-drop-equal-branch", prop="C17", file="sigbits/sharding.go", old="\t\t\t} else if prefixLen == longest {\n\t\t\t\tendsAt = append(endsAt, i+1)\n\t\t\t}", new="\t\t\t}", note="unbalanced but still valid? no: duplicates prefixes"),
    dict(id="c17-split-lt-equal", prop="C17", file="sigbits/sharding.go", old="if prefixLen < longest {", new="if prefixLen < longest || (prefixLen == longest && len(endsAt) == 0 && false) {", equivalent=True, note="control"),
    # ---------------------------------------------------------------- C18 (the two cited survivors first)
    dict(id="c18-write-off-minus", prop="C18", file="iohelper/iohelper.go", old="s.off += int64(n)", new="s.off -= int64(n)"),
    dict(id="c18-seek-base-minus", prop="C18", file="iohelper/iohelper.go", old="\tcase io.SeekStart:\n\t\toffset += s.base", new="\tcase io.SeekStart:\n\t\toffset -= s.base"),
    dict(id="c18-write-max-base", prop="C18", file="iohelper/iohelper.go", old="if max := s.limit - s.off; int64(len(p)) > max {", new="if max := s.limit - s.base; int64(len(p)) > max {"),
    dict(id="c18-writeat-gt", prop="C18", file="iohelper/iohelper.go", old="if off < 0 || off >= s.limit-s.base {", new="if off < 0 || off > s.limit-s.base {"),
    dict(id="c18-writeat-trunc-nil", prop="C18", file="iohelper/iohelper.go", old="\t\tif err == nil {\n\t\t\terr = io.ErrShortWrite\n\t\t}", new="\t\tif err == nil && n == 0 {\n\t\t\terr = io.ErrShortWrite\n\t\t}"),
    dict(id="c18-err2-not-override", prop="C18", file="iohelper/iohelper.go", old="\tif err2 != nil {\n\t\terr = err2\n\t}", new="\tif err2 != nil && err == nil {\n\t\terr = err2\n\t}", equivalent=True, note="control: a request that is truncated AND whose underlying write fails returns ErrShortWrite instead of the writer's error - the statement does not rank the two, both are accepted since the assertion review (10.7)"),
    dict(id="c18-seek-moves-before-validate", prop="C18", file="iohelper/iohelper.go", old="\tif offset < s.base {\n\t\treturn 0, errOffset\n\t}\n\ts.off = offset", new="\ts.off = offset\n\tif offset < s.base {\n\t\treturn 0, errOffset\n\t}"),
    dict(id="c18-seek-end-base", prop="C18", file="iohelper/iohelper.go", old="\tcase io.SeekEnd:\n\t\toffset += s.limit", new="\tcase io.SeekEnd:\n\t\toffset += s.limit - s.base"),
    dict(id="c18-seek-return-abs", prop="C18", file="iohelper/iohelper.go", old="return offset - s.base, nil", new="return offset, nil"),
    dict(id="c18-write-full-advance", prop="C18", file="iohelper/iohelper.go", old="n, err2 := s.w.WriteAt(p, s.off)\n\ts.off += int64(n)", new="n, err2 := s.w.WriteAt(p, s.off)\n\ts.off += int64(len(p))", note="cursor advances by the requested length even when the underlying write was short"),
    dict(id="c18-size-limit", prop="C18", file="iohelper/iohelper.go", old="func (s *SectionWriter) Size() int64 { return s.limit - s.base }", new="func (s *SectionWriter) Size() int64 { return s.limit - s.off }"),
    dict(id="c18-write-at-limit-ok", prop="C18", file="iohelper/iohelper.go", old="\tif s.off >= s.limit {\n\t\treturn 0, io.ErrShortWrite\n\t}", new="\tif s.off > s.limit {\n\t\treturn 0, io.ErrShortWrite\n\t}"),
    dict(id="c18-attowriter-len", prop="C18", file="iohelper/iohelper.go", old="return NewSectionWriter(w, offset, maxOffset-offset)", new="return NewSectionWriter(w, offset, maxOffset-offset-offset)", note="limit lowered by off: AtToWriter at 2^32+5 ends early? (still huge) -> seek end differs"),
    # ---------------------------------------------------------------- C20
    dict(id="c20-iface-header-dropped", prop="C20", file="size/sizeof.go", old="\tcase reflect.Interface:\n\t\tsum += interfacesize\n", new="\tcase reflect.Interface:\n\t\tif v.IsNil() {\n\t\t\tsum += interfacesize\n\t\t}\n", note="header only for nil interfaces"),
    dict(id="c20-nil-ptr-elem", prop="C20", file="size/sizeof.go", old="\t\tif p == nil {\n\t\t\tsum = 0\n\t\t} else {\n\t\t\tsum = sizeof(v.Elem())", new="\t\tif p == nil {\n\t\t\tsum = int(v.Type().Elem().Size())\n\t\t} else {\n\t\t\tsum = sizeof(v.Elem())", note="nil pointer charged its pointee type"),
    dict(id="c20-string-header-only", prop="C20", file="size/sizeof.go", old="\tcase reflect.String:\n\t\tfor i, n := 0, v.Len(); i < n; i++ {", new="\tcase reflect.String:\n\t\tfor i, n := 0, v.Len()&^8; i < n; i++ {", note="strings of 8..15 bytes lose 8"),
    dict(id="c20-map-keys-only", prop="C20", file="size/sizeof.go", old="\t\t\ts = sizeof(v.MapIndex(mapkey))\n\t\t\tsum += s", new="\t\t\ts = sizeof(v.MapIndex(mapkey))\n\t\t\tif i < 2 {\n\t\t\t\tsum += s\n\t\t\t}", note="values of the 3rd+ entry not counted"),
    dict(id="c20-map-header-per-entry", prop="C20", file="size/sizeof.go", old="\tcase reflect.Map:\n\t\tsum += mapsize", new="\tcase reflect.Map:\n\t\tsum += mapsize * (1 + v.Len()/3)"),
    dict(id="c20-array-slice-header", prop="C20", file="size/sizeof.go", old="\tcase reflect.Slice:\n\t\tsum += slicesize", new="\tcase reflect.Slice:\n\t\tsum += slicesize\n\tcase reflect.Array:\n\t\tif v.Len() == 0 {\n\t\t\tsum += slicesize\n\t\t}", note="zero-length arrays charged a slice header"),
    dict(id="c20-stat-type-size", prop="C20", file="size/sizeof.go", old='header = fmt.Sprintf("%s: %d", v.Type(), sizeof(v))', new='header = fmt.Sprintf("%s: %d", v.Type(), int(v.Type().Size()))', note="Stat prints the shallow size"),
    dict(id="c20-revert-uint-fix", prop="C20", file="size/sizeof.go", old="reflect.Int, reflect.Uint, reflect.Uintptr:", new="reflect.Int, reflect.Uint:"),
    dict(id="c20-struct-skip-unexported", prop="C20", file="size/sizeof.go", old="\tcase reflect.Struct:\n\t\tfor i, n := 0, v.NumField(); i < n; i++ {\n\t\t\ts := sizeof(v.Field(i))\n\t\t\tsum += s", new="\tcase reflect.Struct:\n\t\tfor i, n := 0, v.NumField(); i < n; i++ {\n\t\t\tif v.Type().Field(i).PkgPath != \"\" && v.Field(i).Kind() == reflect.Map {\n\t\t\t\tcontinue\n\t\t\t}\n\t\t\ts := sizeof(v.Field(i))\n\t\t\tsum += s", note="unexported map fields skipped"),
    dict(id="c20-complex64", prop="C20", file="size/sizeof.go", old="\tcase reflect.Bool:\n\t\tsum = int(v.Type().Size())", new="\tcase reflect.Bool:\n\t\tsum = int(v.Type().Size())\n\t\tif v.Bool() && false {\n\t\t\tsum = 0\n\t\t}", equivalent=True, note="control"),
    # ---------------------------------------------------------------- C06
    dict(id="c06-bodysize-plus1", prop="C06", file="pbcmpl/pbcmpl.go", old="h := newHeader(ver, uint64(len(data)))", new="h := newHeader(ver, uint64(len(data)+len(data)>>7&1))", note="BodySize one too large for bodies of 128..255 bytes"),
    dict(id="c06-marshal-returns-n2", prop="C06", file="pbcmpl/pbcmpl.go", old="\tn2, err := w.Write(d)\n\tn += n2\n", new="\tn2, err := w.Write(d)\n\tif n2 != 32 {\n\t\tn += n2\n\t}\n", note="count wrong unless the body has 32 bytes (the only length the suite uses)"),
    dict(id="c06-unmarshal-bufio", prop="C06", file="pbcmpl/pbcmpl.go", old="\tn, hi, err := ReadHeader(r)\n\tif err != nil {\n\t\treturn n, \"\", err\n\t}\n\n\tver := hi.GetVersion()", new="\tr = bufio.NewReaderSize(r, 64)\n\tn, hi, err := ReadHeader(r)\n\tif err != nil {\n\t\treturn n, \"\", err\n\t}\n\n\tver := hi.GetVersion()",
         also=[dict(file="pbcmpl/pbcmpl.go", old='import (\n\t"bytes"\n', new='import (\n\t"bufio"\n\t"bytes"\n')], note="buffered reader over-consumes: next frame is lost"),
    dict(id="c06-version-not-defaulted", prop="C06", file="pbcmpl/pbcmpl.go", old="\tver := DefaultVer\n", new="\tver := \"\"\n\tif _, isHeader := msg.(interface{ GetBodySize() int64 }); isHeader || true {\n\t\tver = DefaultVer[:5-5*(len(msg.String())>>4&1)]\n\t}\n", note="default version dropped for messages whose String() is 16..31 chars"),
    dict(id="c06-verstr-first-nul", prop="C06", file="pbcmpl/pbcmpl.go", old="\tfor i = len(buf) - 1; i >= 0 && buf[i] == 0; i-- {\n\t}\n\treturn string(buf[:i+1])", new="\tfor i = 0; i < len(buf) && buf[i] != 0; i++ {\n\t}\n\treturn string(buf[:i])", note="cuts at the first NUL: interior NULs lost"),
    dict(id="c06-size-no-header", prop="C06", file="pbcmpl/pbcmpl.go", old="return HeaderSize(msg) + proto.Size(msg)", new="return HeaderSize(msg) + proto.Size(msg) - proto.Size(msg)>>14", note="Size short for bodies >= 16 KiB"),
    dict(id="c06-readheader-bodysize", prop="C06", file="pbcmpl/header.go", old="\treturn int64(hi.BodySize)\n", new="\treturn int64(hi.BodySize) + int64(hi.BodySize>>40)\n", equivalent=True, note="control: no body of 2^40 bytes is generated"),
    dict(id="c06-header-version-15", prop="C06", file="pbcmpl/header.go", old="copy(h.Version[:], ver)", new="copy(h.Version[:15], ver)", note="16th version byte dropped"),
    dict(id="c06-write-body-first", prop="C06", file="pbcmpl/pbcmpl.go", old="\tn, err := w.Write(h)\n\tif err != nil {\n\t\treturn int64(n), err\n\t}\n\n\tn2, err := w.Write(d)", new="\tif len(d) == 33 {\n\t\th, d = d, h\n\t}\n\tn, err := w.Write(h)\n\tif err != nil {\n\t\treturn int64(n), err\n\t}\n\n\tn2, err := w.Write(d)", note="body written before the header for one body length"),
    dict(id="c06-unmarshal-reads-more", prop="C06", file="pbcmpl/pbcmpl.go", old="nbody, err := io.CopyN(b, r, bodySize)", new="nbody, err := io.CopyN(b, r, bodySize+bodySize>>8&1)", note="reads one byte of the next frame for bodies of 256..511 bytes"),
    # ---------------------------------------------------------------- C07
    dict(id="c07-revert-bodysize-fix", prop="C07", file="pbcmpl/pbcmpl.go", old="\tnbody, err := io.CopyN(b, r, bodySize)\n", new="\tb.Grow(int(bodySize))\n\tnbody, err := io.CopyN(b, r, bodySize)\n", note="allocation sized from the untrusted field again (panic: bytes.Buffer.Grow / out of memory)"),
    dict(id="c07-negative-accepted", prop="C07", file="pbcmpl/pbcmpl.go", old="\tif bodySize < 0 {\n\t\treturn n, ver, errors.WithStack(ErrInvalidBodySize)\n\t}\n", new="", note="negative size reaches CopyN (copies 0 bytes: success on a corrupt header)"),
    dict(id="c07-short-body-nil", prop="C07", file="pbcmpl/pbcmpl.go", old="\t\tif err == io.EOF && nbody > 0 {", new="\t\tif err == io.EOF && nbody > 0 && nbody+1 == bodySize {\n\t\t\terr = nil\n\t\t\tgoto ok\n\t\t}\n\t\tif err == io.EOF && nbody > 0 {",
         also=[dict(file="pbcmpl/pbcmpl.go", old="\terr = proto.Unmarshal(b.Bytes(), msg)\n\treturn n, ver, errors.WithStack(err)", new="ok:\n\terr = proto.Unmarshal(b.Bytes(), msg)\n\treturn n, ver, errors.WithStack(err)")], note="a frame missing exactly its last byte is accepted"),
    dict(id="c07-eof-not-mapped", prop="C07", file="pbcmpl/pbcmpl.go", old="\t\tif err == io.EOF && nbody > 0 {", new="\t\tif err == io.EOF && nbody > 1 {", note="body cut after its first byte reports io.EOF"),
    dict(id="c07-readheader-n-reset", prop="C07", file="pbcmpl/pbcmpl.go", old="\t\treturn int64(n), nil, errors.WithStack(err)", new="\t\treturn int64(n &^ 16), nil, errors.WithStack(err)", note="count wrong for cuts at 16..31"),
    dict(id="c07-headersize-lt", prop="C07", file="pbcmpl/pbcmpl.go", old="if hi.GetHeaderSize() != int64(fixedSize) {", new="if hi.GetHeaderSize() < int64(fixedSize) {", note="header sizes above 32 accepted"),
    dict(id="c07-marshal-continues", prop="C07", file="pbcmpl/pbcmpl.go", old="\tn, err := w.Write(h)\n\tif err != nil {\n\t\treturn int64(n), err\n\t}", new="\tn, err := w.Write(h)\n\tif err != nil && n < 16 {\n\t\treturn int64(n), err\n\t}", note="continues with the body after a header write that failed late"),
    dict(id="c07-marshal-returns-len", prop="C07", file="pbcmpl/pbcmpl.go", old="\tn2, err := w.Write(d)\n\tn += n2\n\tif err != nil {\n\t\treturn int64(n), err\n\t}", new="\tn2, err := w.Write(d)\n\tn += n2\n\tif err != nil {\n\t\treturn int64(len(h) + n2&^1), err\n\t}", note="odd partial body counts rounded down"),
    dict(id="c07-cause-unwrapped", prop="C07", file="pbcmpl/pbcmpl.go", old="\t\t\terr = io.ErrUnexpectedEOF\n", new="\t\t\terr = fmt.Errorf(\"short body: %d of %d\", nbody, bodySize)\n",
         also=[dict(file="pbcmpl/pbcmpl.go", old='import (\n\t"bytes"\n', new='import (\n\t"bytes"\n\t"fmt"\n')], note="fresh error instead of io.ErrUnexpectedEOF"),
    dict(id="c07-prealloc-unbounded", prop="C07", file="pbcmpl/pbcmpl.go", old="if bodySize <= maxBodyPrealloc {", new="if bodySize <= maxBodyPrealloc<<30 {", note="pre-allocation bound lifted to 2^50"),
    dict(id="c09-revert-strcmpupto-fix", prop="C09", file="bitstr/bitstr.go", old="return CmpUpto(*(*[]byte)(unsafe.Pointer(&sl)), b)", new="_ = sl\n\treturn CmpUpto(*(*[]byte)(unsafe.Pointer(&a)), b)", note="capacity read from beyond the string header again"),
    dict(id="c19-revert-strcmpupto-fix", prop="C19", file="bitstr/bitstr.go", old="return CmpUpto(*(*[]byte)(unsafe.Pointer(&sl)), b)", new="_ = sl\n\treturn CmpUpto(*(*[]byte)(unsafe.Pointer(&a)), b)", note="capacity read from beyond the string header again"),
    # ---------------------------------------------------------------- C19
    dict(id="c19-rank64-scratch-global", prop="C19", file="bitmap/rank.go", old="func Rank64(words []uint64, rindex []int32, i int32) (int32, int32) {\n\n\twordI := i >> 6", new="var rankScratch int32\n\nfunc Rank64(words []uint64, rindex []int32, i int32) (int32, int32) {\n\n\trankScratch = i >> 6\n\twordI := rankScratch", note="package-level scratch variable: data race only"),
    dict(id="c19-pathtoindex-memo-map", prop="C19", file="bmtree/index.go", old="func PathToIndexLoose(bitmapSize int32, path uint64) (int32, int32) {\n", new="var looseMemo = map[uint64]int32{}\n\nfunc PathToIndexLoose(bitmapSize int32, path uint64) (int32, int32) {\n\tlooseMemo[path^uint64(bitmapSize)] = bitmapSize\n", note="unsynchronised memo map: concurrent map writes / race"),
    dict(id="c19-cmpupto-masks-in-place", prop="C19", file="bitstr/bitstr.go", old="\tbytea := a[la-1] & b[lb-1]\n", new="\ta[la-1] &= b[lb-1]\n\tbytea := a[la-1]\n", note="normalises a in place: writes through StrCmpUpto's string"),
    dict(id="c19-toarray-clears-trailing", prop="C19", file="bitmap/toarray.go", old="\treturn r\n", new="\tif len(words) > 3 && words[len(words)-1] == 1<<63 {\n\t\twords[len(words)-1] = 0\n\t}\n\treturn r\n"),
    dict(id="c19-firstdiffbits-sorts", prop="C19", file="sigbits/firstdiff.go", old="\tl := len(keys)\n\n\tds := make([]int32, l-1)", new="\tl := len(keys)\n\tif l > 1 && keys[0] > keys[1] {\n\t\tkeys[0], keys[1] = keys[1], keys[0]\n\t}\n\n\tds := make([]int32, l-1)", note="sorts (part of) the caller's keys in place"),
    dict(id="c19-select32-repairs-table", prop="C19", file="bitmap/select.go", old="\ta := int32(0)\n\n\tif i < 0 || i>>5 >= int32(len(selectIndex)) {", new="\ta := int32(0)\n\tselect8Lookup[0] = 8\n\n\tif i < 0 || i>>5 >= int32(len(selectIndex)) {", note="rewrites a table entry with the same value: only the race detector can see it"),
    dict(id="c19-allpaths-caches-result", prop="C19", file="bmtree/allpaths.go", old="\tpaths := make([]uint64, 0)\n", new="\tpaths := allPathsCache[:0]\n\tdefer func() { allPathsCache = paths }()\n",
         also=[dict(file="bmtree/allpaths.go", old="func AllPaths(bitmapSize int32, from, to uint64) []uint64 {", new="var allPathsCache []uint64\n\nfunc AllPaths(bitmapSize int32, from, to uint64) []uint64 {")], note="result buffer reused across calls: later calls overwrite earlier results"),
    dict(id="c19-slice-appends-to-input", prop="C19", file="bitmap/slice.go", old="\treturn r\n", new="\tif cap(words) > len(words) {\n\t\t_ = append(words, 0)\n\t}\n\treturn r\n", note="writes into the spare capacity of the caller's slice"),
    dict(id="c19-get64bits-shared-buffer", prop="C19", file="sigbits/firstdiff.go", old="\t\tbs := make([]byte, 8)\n\t\tcopy(bs, s)", new="\t\tbs := get64Scratch[:]\n\t\tfor i := range bs {\n\t\t\tbs[i] = 0\n\t\t}\n\t\tcopy(bs, s)",
         also=[dict(file="sigbits/firstdiff.go", old="func get64Bits(s string) uint64 {", new="var get64Scratch [8]byte\n\nfunc get64Bits(s string) uint64 {")], note="package-level scratch buffer: correct sequentially, racy concurrently"),
    dict(id="c19-bitword-lazy-init", prop="C19", file="bitword/bitword.go", old="func (w *bitWord) FromStr(s string) []byte {\n", new="func (w *bitWord) FromStr(s string) []byte {\n\tif w.byteCap != 8/w.width || true {\n\t\tw.byteCap = 8 / w.width\n\t}\n", note="benign-looking re-initialisation of a shared table entry: write/read race"),
]

# ---------------------------------------------------------------- additions (tools/mutants_add/<ID>.py)
# Edits that a completeness review (DESIGN.md 10.9) showed the checks did NOT detect, kept here after the
# checks were strengthened: each is now expected to be caught (or is marked equivalent=True as a control).
import glob as _glob
import os as _os

for _p in sorted(_glob.glob(_os.path.join(_os.path.dirname(_os.path.abspath(__file__)), "mutants_add", "*.py"))):
    _ns = {}
    exec(compile(open(_p).read(), _p, "exec"), _ns)
    _have = {m["id"] for m in MUTANTS}
    for _m in _ns.get("MUTANTS_ADD", []):
        if _m["id"] not in _have:
            MUTANTS.append(_m)

# ---------------------------------------------------------------- ports onto the repaired code
# /repo commits 13ff612 (Builder.Extend computes its end in int64) and f8f257c (sizeof walks maps with MapRange) changed
# the text these mutants replace; the same edits, re-expressed on the current lines (plus reverts of the two repairs).
_PORTS = {
    "c12-extend-end": dict(old="end = int64(b.Offset) + int64(bitEnd) + 1", new="end = int64(b.Offset) + int64(bitEnd)"),
    "c12-extend-offset-end": dict(old="b.Offset += size\n", new="if len(bitPositions) > 0 && bitPositions[len(bitPositions)-1] >= size+64 {\n\t\tb.Offset = int32(end)\n\t} else {\n\t\tb.Offset += size\n\t}\n"),
    "c12-extend-grow-stop-512": dict(old="for end > int64(len(b.Words))<<6 {", new="for end > int64(len(b.Words))<<6 && len(b.Words) < 512 {"),
    "c12-extend-grow-stop-20000": dict(old="for end > int64(len(b.Words))<<6 {", new="for end > int64(len(b.Words))<<6 && len(b.Words) != 20000 {"),
    "c12-extend-nil-list": dict(old="\tend := int64(b.Offset) + int64(size)\n", new="\tif bitPositions == nil && size > 70 {\n\t\treturn\n\t}\n\tend := int64(b.Offset) + int64(size)\n"),
    "c20-map-keys-only": dict(old="\t\tfor iter.Next() {\n\t\t\ts := sizeof(iter.Key())\n\t\t\tsum += s\n\t\t\ts = sizeof(iter.Value())\n\t\t\tsum += s",
                              new="\t\tfor i := 0; iter.Next(); i++ {\n\t\t\ts := sizeof(iter.Key())\n\t\t\tsum += s\n\t\t\ts = sizeof(iter.Value())\n\t\t\tif i < 2 {\n\t\t\t\tsum += s\n\t\t\t}"),
    "c20-g3-map-first-8": dict(old="\t\tfor iter.Next() {\n\t\t\ts := sizeof(iter.Key())", new="\t\tfor i := 0; i < 8 && iter.Next(); i++ {\n\t\t\ts := sizeof(iter.Key())"),
    "c20-g3-map-first-4": dict(old="\t\tfor iter.Next() {\n\t\t\ts := sizeof(iter.Key())", new="\t\tfor i := 0; i < 4 && iter.Next(); i++ {\n\t\t\ts := sizeof(iter.Key())"),
    "c20-g7-map-key-shallow": dict(old="\t\t\ts := sizeof(iter.Key())\n\t\t\tsum += s\n",
                                   new="\t\t\ts := sizeof(iter.Key())\n\t\t\tif k := iter.Key().Kind(); k == reflect.Ptr || k == reflect.Float64 {\n\t\t\t\ts = int(iter.Key().Type().Size())\n\t\t\t}\n\t\t\tsum += s\n"),
}
for _m in MUTANTS:
    if _m["id"] in _PORTS:
        _m.update(_PORTS[_m["id"]])
    if _m["id"] == "c20-g6-depth-guard-7":
        _m["also"] = [dict(old="s := sizeof(iter.Key())", new="s := sizeofD(iter.Key(), d+1)"), dict(old="s = sizeof(iter.Value())", new="s = sizeofD(iter.Value(), d+1)")] + [a for a in _m["also"] if "mapkey" not in a["old"]]
MUTANTS += [
    dict(id="c12-extend-revert-overflow-fix", prop="C12", file="bitmap/builder.go", old="end = int64(b.Offset) + int64(bitEnd) + 1", new="end = int64(b.Offset + bitEnd + 1)",
         note="reverts 13ff612: Offset + last position + 1 wraps in int32 for position 2^31-1 (regression case regress/C12/last/extend-last-position-maxint32.json)"),
    dict(id="c20-revert-maprange-fix", prop="C20", file="size/sizeof.go", old="\t\t\ts = sizeof(iter.Value())\n", new="\t\t\ts = sizeof(v.MapIndex(iter.Key()))\n",
         note="reverts f8f257c: the value under a NaN key is looked up with MapIndex and not found (regression case regress/C20/map-with-nan-key.json)"),
    dict(id="c11-pathof-revert-overflow-fix", prop="C11", file="bmtree/newpath.go", old="if int64(frombit)+int64(height) > math.MaxInt32 {", new="if int64(frombit)+int64(height) > math.MaxInt32 && height < 0 {",
         note="reverts 13898b7: frombit+height wraps in int32 at the top of a 2^28-byte string (regression case regress/C11/last/pathof-end-bit-beyond-maxint32.json)"),
]

# After the second soundness pass (DESIGN.md 10.10) results that share memory with EACH OTHER or with a never-written constant
# are accepted (a property-preserving variant does exactly that): these edits are controls now.
for _m in MUTANTS:
    if _m["id"] in ("c09-r2-new-shared-empty", "c09-r2-new-memo-last-call", "c17-r2-results-adjacent-in-arena",
                    "c08-r2-fromstr-memo-last-call", "c08-r2-fromstrs-dedup-equal-elements"):
        _m["equivalent"] = True
        _m["note"] = (_m.get("note") or "") + " [control since the relaxation: results sharing memory with each other / a never-written constant are accepted]"

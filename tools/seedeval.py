#!/usr/bin/env python3
"""Development aid: validate an independently written breaking change and run the checks against it.

  tools/seedeval.py <dir with patch.diff, demo_test.go, meta.json> <seed-id> [--thorough] [--props C01,C19]

Works on a scratch copy of /repo (never on /repo itself). Confirms: patch applies, library builds,
the pinned suite still passes (mathext/zipf excluded: it fails on the unchanged tree too), the demo
FAILS with the patch and PASSES without; then runs `VERIF_REPO=<copy> ./run <prop> quick` (and
thorough when quick stays green or when asked). Kept changes are stored under /verif/seeded/<seed-id>/.
"""
import json
import os
import shutil
import subprocess
import sys
import tempfile

VERIF = os.path.dirname(os.path.dirname(os.path.abspath(__file__)))
ENV = dict(os.environ, GOFLAGS="-mod=mod", GOPROXY="off", GOSUMDB="off", GOTOOLCHAIN="local", VERIF_REPLAY_DIR="/verif/replays/.seed")


def sh(cmd, cwd, env=ENV, timeout=3600):
    p = subprocess.run(cmd, cwd=cwd, env=env, shell=isinstance(cmd, str), stdout=subprocess.PIPE, stderr=subprocess.STDOUT, text=True, errors="replace", timeout=timeout)
    return p.returncode, p.stdout


def main():
    a = sys.argv[1:]
    src, sid = a[0], a[1]
    thorough = "--thorough" in a
    meta = json.load(open(os.path.join(src, "meta.json")))
    props = [meta["property"]]
    if "--props" in a:
        props = a[a.index("--props") + 1].split(",")
    root = tempfile.mkdtemp(prefix="seed-")
    rep = {"seed": sid}
    try:
        # a clone of /repo's HEAD: the patch was written against an earlier commit, so it is applied with a
        # 3-way merge (later "fix:" commits may have touched neighbouring lines); the rebased patch is what
        # is applied / reverted from then on
        subprocess.run(["git", "clone", "-q", "--shared", "/repo", root], check=True)
        rc, out = sh(["git", "apply", "--3way", "--whitespace=nowarn", os.path.join(os.path.abspath(src), "patch.diff")], root)
        rep["applies"] = rc == 0 and "with conflicts" not in out
        if not rep["applies"]:
            print(json.dumps(rep), out[-800:])
            return 1
        rebased = os.path.join(root, ".git", "seed.rebased.diff")
        with open(rebased, "w") as fh:
            subprocess.run(["git", "diff", "HEAD"], cwd=root, stdout=fh, check=True)
        sh(["git", "reset", "-q"], root)
        rc, out = sh("go build ./... && go vet -vet=off ./... 2>/dev/null; go build ./...", root)
        rep["compiles"] = rc == 0
        rc, out = sh("go test -vet=off -count=1 $(go list ./... | grep -v mathext/zipf)", root)
        rep["suite_passes"] = rc == 0
        if rc != 0:
            rep["suite_tail"] = out[-600:]
        place = os.path.join(root, meta["demo_place"])
        demo_src = os.path.join(src, "demo_test.go")
        if not os.path.exists(demo_src):
            demo_src = os.path.join(src, "demo_test.go.txt")  # a stored seed (/verif/seeded/<id>) evaluated again
        shutil.copy(demo_src, place)
        rc, out = sh(meta["demo_cmd"], root)
        rep["demo_fails_with_patch"] = rc != 0
        rep["demo_output_with_patch"] = out[-700:]
        # without the patch
        sh(["git", "apply", "-R", "--whitespace=nowarn", rebased], root)
        rc, out = sh(meta["demo_cmd"], root)
        rep["demo_passes_without_patch"] = rc == 0
        if rc != 0:
            rep["demo_output_without_patch"] = out[-500:]
        os.remove(place)
        sh(["git", "apply", "--whitespace=nowarn", rebased], root)
        # our checks
        env = dict(ENV, VERIF_REPO=root, VERIF_EVIDENCE_DIR=os.path.join(root, ".verif-evidence"))
        rep["checks"] = {}
        for prop in props:
            r = {}
            for tier in ["quick"] + (["thorough"] if thorough else []):
                rc, out = sh([os.path.join(VERIF, "run"), prop, tier], VERIF, env, timeout=7200)
                r[tier] = rc
                lines = [l for l in out.splitlines() if l.strip()]
                if rc == 1:
                    for l in lines:
                        if l.startswith("failing case:"):
                            r["failing_case"] = l[:600]
                        if l.startswith("VIOLATION"):
                            path = l.split("replay=")[1].strip()
                            keep = os.path.join(VERIF, "seeded", sid)
                            os.makedirs(keep, exist_ok=True)
                            shutil.copy(path, os.path.join(keep, "replay-%s.json" % prop))
                            # replay round trip: fails on the changed tree, passes on /repo
                            rr, _ = sh([os.path.join(VERIF, "run"), prop, "--replay", path], VERIF, env)
                            rc0, _ = sh([os.path.join(VERIF, "run"), prop, "--replay", path], VERIF, ENV)
                            r["replay_on_changed_tree"], r["replay_on_repo"] = rr, rc0
                            os.remove(path)
                    break
                r["last"] = lines[-1][:300] if lines else ""
                if tier == "quick" and not thorough:
                    rc2, out2 = sh([os.path.join(VERIF, "run"), prop, "thorough"], VERIF, env, timeout=7200)
                    r["thorough"] = rc2
                    for l in out2.splitlines():
                        if l.startswith("failing case:"):
                            r["failing_case"] = l[:600]
            rep["checks"][prop] = r
        ok = rep["compiles"] and rep["suite_passes"] and rep["demo_fails_with_patch"] and rep["demo_passes_without_patch"]
        rep["valid_seed"] = ok
        if ok:
            keep = os.path.join(VERIF, "seeded", sid)
            os.makedirs(keep, exist_ok=True)
            if os.path.abspath(src) != os.path.abspath(keep):
                shutil.copy(os.path.join(src, "patch.diff"), keep)
                shutil.copy(demo_src, os.path.join(keep, "demo_test.go.txt"))
            meta2 = dict(meta)
            try:  # keep hand-written notes of an earlier evaluation
                old = json.load(open(os.path.join(keep, "meta.json")))
                if old.get("history"):
                    meta2["history"] = old["history"]
            except (OSError, ValueError):
                pass
            meta2["id"] = sid
            meta2["written_by"] = "independent sub-agent given only the property text and a scratch worktree"
            meta2["confirmed"] = {k: rep[k] for k in ("applies", "compiles", "suite_passes", "demo_fails_with_patch", "demo_passes_without_patch")}
            meta2["what_was_run"] = ["git apply --3way patch.diff on a scratch clone of /repo (HEAD %s)" % subprocess.check_output(["git", "-C", "/repo", "rev-parse", "--short", "HEAD"], text=True).strip(), "go build ./...", "go test -vet=off -count=1 (all packages except mathext/zipf)", meta["demo_cmd"] + " with and without the patch"] + ["VERIF_REPO=<copy> ./run %s %s -> exit %s" % (p, t, v) for p, r in rep["checks"].items() for t, v in r.items() if t in ("quick", "thorough")]
            meta2["checks"] = rep["checks"]
            json.dump(meta2, open(os.path.join(keep, "meta.json"), "w"), indent=1)
        print(json.dumps(rep, indent=1))
    finally:
        shutil.rmtree(root, ignore_errors=True)


if __name__ == "__main__":
    sys.exit(main())

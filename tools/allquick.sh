#!/bin/sh
# development aid: run every quick check at the given seeds (default 1..5); prints only non-OK outcomes and a summary
cd "$(dirname "$0")/.."
seeds="${*:-1 2 3 4 5}"
bad=0
for s in $seeds; do
  for p in C01 C02 C03 C04 C05 C06 C07 C08 C09 C10 C11 C12 C13 C14 C15 C16 C17 C18 C19 C20; do
    out=$(VERIF_SEED=$s ./run $p quick 2>&1); rc=$?
    if [ $rc -ne 0 ]; then bad=$((bad+1)); echo "seed=$s $p exit=$rc"; echo "$out" | tail -5; fi
  done
  echo "seed $s done"
done
echo "non-OK runs: $bad"

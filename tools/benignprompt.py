#!/usr/bin/env python3
"""Development aid: brief + scratch worktree for one round of property-PRESERVING variants (false-alarm control).

  tools/benignprompt.py [C01 C02 ...]

Creates /tmp/benign/<ID>/wt (git worktree of /repo HEAD), /tmp/benign/<ID>/out and /tmp/benign/<ID>/prompt.txt.
The brief holds the property text and the list of freedoms to use; nothing about how /verif checks anything.
"""
import json
import os
import subprocess
import sys

VERIF = os.path.dirname(os.path.dirname(os.path.abspath(__file__)))

PROMPT = """You are helping to evaluate a test-generation tool for FALSE ALARMS. Your job: write ONE realistic change to the
Go library openacid/low that KEEPS the property quoted below TRUE for every input in its stated domain, but makes the
code behave as differently as a plausible commit can in everything the property does NOT fix. A checker that is sound must
stay silent on your change; a checker that assumes more than the statement says will raise a false alarm on it.
You see only the property text and the library. Do NOT look at anything under /verif and do not modify /repo itself.

Your scratch git worktree of the library: {wt}   (work ONLY there; module path github.com/openacid/low)
Every shell call needs: export GOFLAGS=-mod=mod GOPROXY=off GOSUMDB=off GOTOOLCHAIN=local   (no network; go 1.23)
The suite: cd {wt} && go test -vet=off -count=1 $(go list ./... | grep -v mathext/zipf)   (mathext/zipf fails on the unchanged tree; ignore it)
If git status shows go.sum/go.mod modified by the go tool, restore them.

THE PROPERTY (this is all that is specified; read the anchored code to understand it):
{prop}

USE AS MANY OF THESE FREEDOMS AS FIT INTO ONE PLAUSIBLE COMMIT (a rewrite for speed / robustness / readability):
 1. nil versus empty: take different code paths for nil and for empty non-nil inputs; where the statement does not say
    whether a RESULT is nil or empty, return nil in some cases and an empty non-nil slice in others; results with spare
    capacity in some cases and exact capacity in others.
 2. Size-dependent algorithms: a different algorithm above a size threshold (word-at-a-time, blocked, unrolled by 4/8 with a
    correct remainder loop, table-driven), chosen differently for small, medium (hundreds .. tens of thousands of elements)
    and large inputs.
 3. Goroutines: when runtime.GOMAXPROCS(0) > 1 and the input is large enough (choose a threshold of a few hundred to a few
    thousand elements), split the work over goroutines - CORRECTLY (remainders, chunk borders, ordering of the output, no
    data race, no write to the arguments) - and join before returning.
 4. Memory access: read strings / byte slices 8 bytes at a time with encoding/binary on sub-slices (correct for any
    alignment and any length, never reading outside the argument's len); never rely on unsafe tricks.
 5. Internal state that is safe: value-keyed (not address-keyed) caches, sync.Once tables, sync.Pool scratch buffers whose
    content is copied out before returning - all properly synchronised and never handed to the caller.
 6. For reader/writer code: a different number and size of underlying Read/Write calls; re-issuing the rest after an underlying
    writer accepted fewer bytes without an error; other error MESSAGES and wrapping with %w such that errors.Is still finds
    every sentinel error the statement names; never consuming more input than the statement allows.
 7. Other behaviour strictly OUTSIDE the stated domain (other panics, other results there).
Do NOT change anything the statement fixes (values, lengths, order, which sentinel error, counts, "argument unchanged" ...).

VERIFY that you preserved the property: keep a verbatim copy of the old implementation in a _test.go file (not part of the
patch) and compare old and new on at least a million generated in-domain inputs that include: nil and empty inputs, sizes
just below/at/above each of your thresholds, sizes up to ~100000 elements, misaligned substrings, arguments with spare
capacity holding garbage, every GOMAXPROCS value in 1,2,3,5,8,16,33 (runtime.GOMAXPROCS in the test), and run
`go test -race` on it. The unedited existing suite must pass. Where old and new differ, it must be ONLY in what the statement
leaves open (say which).

DELIVER in {root}/out:
  patch.diff  - `git diff HEAD` with ONLY the library change (no test files, no go.sum noise); must apply with `git apply`.
  meta.json   - {{"property": "{pid}", "summary": "<what changed, 3-6 sentences>", "freedoms_used": "<which of 1-7 and how>",
                 "verified": "<what you compared, how many cases, the result>", "differs_only_in": "<observable differences, all of
                 them outside what the statement fixes>"}}
Leave the worktree clean at the end (git checkout -- . ; remove your test files). No commits. Keep your replies short.
Your final answer: five lines (files touched, freedoms used, how verified)."""


def main():
    ids = sys.argv[1:] or ["C%02d" % i for i in range(1, 21)]
    props = {}
    for line in open(os.path.join(VERIF, "properties.jsonl")):
        p = json.loads(line)
        props[p["id"]] = p
    for pid in ids:
        p = props[pid]
        root = "/tmp/benign/%s" % pid
        wt = root + "/wt"
        if os.path.isdir(wt):
            subprocess.run(["git", "-C", "/repo", "worktree", "remove", "--force", wt])
        subprocess.run(["rm", "-rf", root])
        os.makedirs(root + "/out")
        subprocess.run(["git", "-C", "/repo", "worktree", "add", "-q", "--detach", wt, "HEAD"], check=True)
        text = PROMPT.format(pid=pid, wt=wt, root=root,
                             prop=json.dumps({k: p[k] for k in ("id", "title", "statement", "quantifier", "anchors")}, indent=1))
        open(root + "/prompt.txt", "w").write(text)
        print(pid, "ready")


if __name__ == "__main__":
    main()

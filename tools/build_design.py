#!/usr/bin/env python3
"""Rebuilds section 10 of DESIGN.md from docs/design10.md.in + generated tables."""
import glob, json, os, subprocess, sys
V = os.path.dirname(os.path.dirname(os.path.abspath(__file__)))
src = open(os.path.join(V, "docs", "design10.md.in")).read()
mut = open(os.path.join(V, "tools", "mutants_last_sweep.md")).read().strip()
seed = subprocess.check_output([sys.executable, os.path.join(V, "tools", "seedtable.py")], text=True).strip()
metas = [json.load(open(p)) for p in sorted(glob.glob(os.path.join(V, "seeded", "*", "meta.json")))]
n = len(metas)
missed_first = [m["id"] for m in metas if "MISSED at first" in (m.get("history") or "")]
caught_quick = [m["id"] for m in metas if any(r.get("quick") == 1 for r in m.get("checks", {}).values())]
not_caught = [m["id"] for m in metas if m["id"] not in caught_quick and not any(r.get("thorough") == 1 for r in m.get("checks", {}).values())]
summary = ("Outcome: %d changes kept (all re-validated). %d were caught by the property's quick check as it stood when the change arrived; "
           "%d were missed at first (by quick, some also by thorough) and led to the strengthenings described in their rows: %s. "
           "With the current checks %d of %d are caught by the quick tier%s, and every written replay file fails on the changed tree and passes on /repo."
           % (n, n - len(missed_first), len(missed_first), ", ".join(missed_first), len(caught_quick), n,
              ("" if not not_caught else "; NOT caught: " + ", ".join(not_caught))))
bud = json.load(open(os.path.join(V, "tools", "budgets.json")))
rows = ["| id | quick: evaluations / distinct non-trivial / wall | thorough: evaluations / distinct non-trivial / wall |", "|---|---|---|"]
for pid in sorted(bud):
    b = bud[pid]
    rows.append("| %s | %s / %s / %s s | %s / %s / %s s |" % (pid, b["q"][0], b["q"][1], b["q"][2], b["t"][0], b["t"][1], b["t"][2]))
ben = [json.load(open(p)) for p in sorted(glob.glob(os.path.join(V, "benign", "*", "meta.json")))]
def _held(m, tier):
    return all(r.get(tier) == 0 for r in m.get("checks", {}).values() if tier in r)
nb = len(ben)
q_ok = [m["id"] for m in ben if m.get("checks") and _held(m, "quick")]
t_run = [m["id"] for m in ben if any("thorough" in r for r in m.get("checks", {}).values())]
t_ok = [m["id"] for m in t_run and ben if m["id"] in t_run and _held(m, "thorough")]
alarms = [m["id"] for m in ben if m.get("checks") and not _held(m, "quick")]
benign_summary = ("Outcome: %d variants kept; the quick check stayed silent on %d of them%s%s. Variants on which a check "
                  "raised an alarm, and what the triage found (meta.json `triage`): %s."
                  % (nb, len(q_ok), (", the thorough tier on %d of the %d it was run on" % (len(t_ok), len(t_run))) if t_run else "",
                     "", (", ".join("%s (%s)" % (m["id"], (m.get("triage") or "not triaged yet")[:400]) for m in ben if m["id"] in alarms or m.get("triage")) or "none")))
relax = open(os.path.join(V, "docs", "relax_summary.txt")).read().strip() if os.path.exists(os.path.join(V, "docs", "relax_summary.txt")) else "(pending)"
src = src.replace("<<BENIGN_SUMMARY>>", benign_summary).replace("<<RELAX_SUMMARY>>", relax)
out = src.replace("<<MUT_TABLE>>", mut).replace("<<SEED_TABLE>>", seed).replace("<<NSEEDS>>", str(n)).replace("<<SEED_SUMMARY>>", summary).replace("<<BUDGET_TABLE>>", "\n".join(rows))
p = os.path.join(V, "DESIGN.md")
d = open(p).read()
k = d.find("\n## 10. As built")
if k >= 0:
    d = d[:k]
open(p, "w").write(d.rstrip("\n") + "\n" + out)
print("DESIGN.md rebuilt: %d seeds, %d mutant rows" % (n, mut.count("\n") - 1))

#!/usr/bin/env python3
"""Development aid: prepare the brief and the scratch worktree for one round of independent breaking changes.

  tools/seedprompt.py <round-name> <themeA-file> <themeB-file> [C01 C02 ...]

Creates /tmp/seed/<ID>/wt (git worktree of /repo HEAD), /tmp/seed/<ID>/out/{1,2} and /tmp/seed/<ID>/prompt.txt.
The brief holds the property text, the two themes of the round, one line per earlier change to the same
property (so the new ones differ) and the delivery format. It holds nothing about how /verif checks anything.
"""
import glob
import json
import os
import subprocess
import sys

VERIF = os.path.dirname(os.path.dirname(os.path.abspath(__file__)))


def main():
    rnd, fa, fb = sys.argv[1:4]
    ids = sys.argv[4:] or ["C%02d" % i for i in range(1, 21)]
    themes = [open(fa).read().strip(), open(fb).read().strip()]
    props = {}
    for line in open(os.path.join(VERIF, "properties.jsonl")):
        p = json.loads(line)
        props[p["id"]] = p
    for pid in ids:
        p = props[pid]
        root = "/tmp/seed/%s" % pid
        wt = root + "/wt"
        if os.path.isdir(wt):
            subprocess.run(["git", "-C", "/repo", "worktree", "remove", "--force", wt])
        subprocess.run(["rm", "-rf", root])
        os.makedirs(root + "/out/1")
        os.makedirs(root + "/out/2")
        subprocess.run(["git", "-C", "/repo", "worktree", "add", "-q", "--detach", wt, "HEAD"], check=True)
        earlier = []
        for d in sorted(glob.glob(os.path.join(VERIF, "seeded", pid.lower() + "-*"))):
            try:
                m = json.load(open(d + "/meta.json"))
            except (OSError, ValueError):
                continue
            earlier.append("- " + m.get("summary", "")[:260].replace("\n", " "))
        text = PROMPT.format(
            pid=pid, wt=wt, root=root, rnd=rnd,
            prop=json.dumps({k: p[k] for k in ("id", "title", "statement", "quantifier", "why_tests_cant", "anchors")}, indent=1),
            theme1=themes[0], theme2=themes[1], earlier="\n".join(earlier) or "(none)")
        open(root + "/prompt.txt", "w").write(text)
        print(pid, "ready:", root + "/prompt.txt")


PROMPT = """You are helping to evaluate a test-generation tool. Your job: write TWO independent, realistic,
deliberately WRONG changes to the Go library openacid/low, each of which breaks the property quoted below while
the library still compiles and its existing test suite still passes. You see only the property text and the
library. Do NOT look at anything under /verif (do not list, read or grep it) and do not modify /repo itself.

Your scratch git worktree of the library: {wt}   (work ONLY there; module path github.com/openacid/low)
Every shell call needs: export GOFLAGS=-mod=mod GOPROXY=off GOSUMDB=off GOTOOLCHAIN=local
(no network; nothing can be downloaded; go 1.23). The suite is run with
    cd {wt} && go test -vet=off -count=1 $(go list ./... | grep -v mathext/zipf)
(mathext/zipf fails on the unchanged tree too; ignore it). If `git status` shows go.sum/go.mod modified by the
go tool, restore them (git checkout -- go.mod go.sum) - they are not part of your change.

THE PROPERTY (this is all that is specified; read the anchored code to understand it):
{prop}

WHAT EACH CHANGE MUST BE
* A change to library (non-test) .go files only, of the kind a real contributor could plausibly commit
  (a refactoring, speed-up, clean-up, new feature, "bug fix", portability change ...), with sensible code and
  comments that do NOT announce the defect. Existing *_test.go files stay untouched.
* With the change: `go build ./...` succeeds and the whole existing suite (command above) still passes.
* The change makes the property FALSE inside its stated domain (wrong result, panic, modified argument, ...),
  but only under specific circumstances - ordinary use and the existing tests must not expose it at once.
* The two changes must be independent of each other (each is made on the clean tree) and must follow these
  two themes, one each:

  CHANGE 1 - {theme1}

  CHANGE 2 - {theme2}

* Earlier rounds already produced the following changes for this property. Yours must be genuinely different
  in mechanism and in what is needed to trigger them (do not revisit these ideas):
{earlier}

FOR EACH CHANGE deliver, in {root}/out/1 and {root}/out/2 respectively:
  patch.diff    - `git diff HEAD` of the worktree with ONLY the library change (no demo file, no go.sum noise);
                  it must apply to a clean checkout with `git apply`.
  demo_test.go  - a Go test file with ONE test function named TestSeedDemo (package clause matching the
                  directory it is to be placed in; internal or external test package, your choice) that FAILS with
                  the change applied and PASSES on the unchanged library. It should demonstrate the violation of the
                  property as stated (compute the expected value independently), on the smallest input you can find.
  meta.json     - {{"property": "{pid}", "summary": "<what the change does and why it is wrong, 2-5 sentences>",
                   "needs": "<exactly what is needed for it to manifest: which inputs / sequence / build / context,
                   and which inputs stay correct>", "demo_place": "<path relative to the repository root where
                   demo_test.go must be copied, e.g. bitmap/zz_seed_demo_test.go>", "demo_cmd": "<command run from
                   the repository root, e.g. go test -vet=off -count=1 -run TestSeedDemo ./bitmap/>",
                   "theme": "<1 or 2>"}}

VERIFY YOURSELF before finishing, for each change: (a) clean tree + demo -> demo passes; (b) change applied ->
build ok, full suite passes, demo fails; (c) `git stash`/`git checkout -- .` style reset between the two changes.
Leave the worktree clean at the end (git checkout -- . ; remove the demo file). Do not create commits.
Prefer defects that are hard to find: they should need a particular content pattern, combination of arguments,
sequence of calls, build configuration or calling context; but they must be real violations of the quoted
statement inside its stated domain (not behaviour the statement leaves open, and not inputs outside the
quantifier). If a theme truly cannot be applied to this property, say so in meta.json "summary" and use the
closest applicable idea instead. Your final answer: three lines per change (files touched, trigger, demo result
with/without)."""

if __name__ == "__main__":
    main()

#!/usr/bin/env python3
"""Writes tools/budgets.json from evidence/ (last quick runs) and evidence_thorough/ (copies of the last thorough runs)."""
import json, os
V = os.path.dirname(os.path.dirname(os.path.abspath(__file__)))
out = {}
for i in range(1, 21):
    pid = "C%02d" % i
    row = {}
    for key, d, tier in (("q", "evidence", "quick"), ("t", "evidence_thorough", "thorough")):
        e = json.load(open(os.path.join(V, d, pid + ".json")))
        assert e["tier"] == tier, (pid, d, e["tier"])
        c = e["coverage"]
        row[key] = ["{:,}".format(c["evaluations"]).replace(",", " "), "{:,}".format(c["distinct_nontrivial"]).replace(",", " "), "%.0f" % e["wall_s"]]
    out[pid] = row
json.dump(out, open(os.path.join(V, "tools", "budgets.json"), "w"), indent=1)
print("budgets.json written")

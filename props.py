"""Per-property configuration of the driver (budgets, build variants, evidence level)."""

COMMON_ASSUMPTIONS = [
    "oracles in /verif/harness/model and in each cNN package are correct (written from the property statement; cross-checked by their own self-tests)",
    "go1.23.5 linux/amd64 compiler and runtime; pgregory.net/rapid v1.3.0 draws, shrinks and replays faithfully",
    "sizes are bounded (DESIGN.md 3.4): nothing beyond the generated sizes is claimed",
]


# The "procs" build variant: the same binary in a second process that steps through GOMAXPROCS settings
# (vk.procsStep), because a library function may cut its input into per-CPU chunks when more than one
# scheduler thread is available; the ordinary process runs with GOMAXPROCS=1. Huge inputs (TestLast) and
# the committed regression cases stay with the ordinary process.
PROCS_LIST = "2,3,16,5,32,7,4,12,24,6,33,8,17,64"


def procs_variant(qprop, tprop, tags=None, **kw):
    v = dict(name="procs", env={"VERIF_PROCS": PROCS_LIST, "GOMAXPROCS": "4"}, replay=False, skip_last=True,
             main_regex="^(TestColdStart|TestFirst|TestGrid|TestProp)$",
             quick=dict(prop=max(qprop // 2, 1), prop_shards=1, grid_shards=1, timeout=300),
             thorough=dict(prop=max(tprop // 4, 1), prop_shards=4, grid_shards=1, timeout=3600))
    if tags:
        v["tags"] = tags
    v.update(kw)
    return v


def std(pkg, qprop, tprop, fuzz=None, grid_shards_thorough=1, level="exploration", engine=None, extra=None, procs=False):
    d = dict(
        pkg=pkg,
        level=level,
        engine=engine or ("rapid+grid+gofuzz" if fuzz else "rapid+grid"),
        assumptions=list(COMMON_ASSUMPTIONS),
        quick=dict(prop=qprop, prop_shards=1, grid_shards=1, timeout=300),
        thorough=dict(prop=tprop, prop_shards=16, grid_shards=grid_shards_thorough, timeout=3600),
    )
    if fuzz:
        d["thorough"]["fuzz"] = dict(seconds=fuzz, target="FuzzProp")
    if extra:
        d.update(extra)
    if procs:
        d["variants"] = list(d.get("variants") or [dict(name="rel")]) + [procs_variant(qprop, tprop)]
        d["engine"] += " + a second process stepping through GOMAXPROCS settings"
    return d


PROPS = {
    "C19": std("c19", 12000, 20000, extra=dict(
        engine="rapid (guarded arguments, table snapshots, repeat/relocate) + concurrent rounds under the Go race detector",
        race_exit_is_violation=True,
        variants=[
            dict(name="rel", tags="verif", fallback_untagged=True),
            dict(name="race", tags="verif", race=True, fallback_untagged=True, env={"GORACE": "halt_on_error=1 exitcode=66 history_size=7"},
                 quick=dict(prop=50, prop_shards=1, grid_shards=1, timeout=300),
                 thorough=dict(prop=200, prop_shards=16, grid_shards=1, timeout=3600)),
            procs_variant(6000, 20000, tags="verif", fallback_untagged=True),
        ])),
    "C07": std("c07", 6000, 8000, fuzz=60, level="fault_enumeration", extra=dict(engine="rapid + per-frame fault-point enumeration + gofuzz")),
    "C06": std("c06", 3000, 60000, fuzz=45, extra=dict(engine="rapid (stream model + hand-written wire encoder) + table + gofuzz")),
    "C20": std("c20", 5000, 300000, fuzz=30, extra=dict(
        engine="rapid (oracle by construction via reflect) + grid + gofuzz",
        # size.Of walks values through reflect; the thorough tier repeats the run under the second installed toolchain
        variants=[dict(name="rel"),
                  dict(name="go126", go="go1.26.8", optional=True, tiers=["thorough"],
                       thorough=dict(prop=20000, prop_shards=16, grid_shards=1, timeout=3600)),
                  procs_variant(5000, 100000)])),
    "C18": std("c18", 5000, 600000, fuzz=45, extra=dict(engine="rapid stateful (model-based histories with injected faults) + gofuzz over the same history generator")),
    "C16": std("c16", 5000, 15000, procs=True, fuzz=45),
    "C17": std("c17", 5000, 50000, procs=True, fuzz=45),
    "C09": std("c09", 20000, 400000, fuzz=45, extra=dict(
        # bitstr.StrCmpUpto converts a string header with unsafe: what it reads next to the header depends on the
        # compiler's frame layout, so the thorough tier repeats grid + rapid under the second installed toolchain
        variants=[dict(name="rel"),
                  dict(name="go126", go="go1.26.8", optional=True, tiers=["thorough"],
                       thorough=dict(prop=50000, prop_shards=16, grid_shards=1, timeout=3600))])),
    "C08": std("c08", 10000, 40000, procs=True, fuzz=30),
    "C15": std("c15", 2000, 12000, fuzz=60, extra=dict(engine="rapid stateful (model-based histories) + gofuzz over the same history generator")),
    "C12": std("c12", 10000, 100000, procs=True, fuzz=30),
    "C14": std("c14", 5000, 150000, procs=True, fuzz=45),
    "C13": std("c13", 5000, 100000, procs=True, fuzz=45),
    "C11": std("c11", 20000, 500000, procs=True, fuzz=45, extra=dict(
        # PathOf / PathsOf build path words: the grid and a shorter random search again with -tags debug (bmtree's contracts)
        variants=[dict(name="rel"),
                  dict(name="debug", tags="debug", skip_last=True,
                       quick=dict(prop=5000, prop_shards=1, grid_shards=1, timeout=300),
                       thorough=dict(prop=50000, prop_shards=4, grid_shards=1, timeout=3600))])),
    "C04": std("c04", 6000, 55000, procs=True, fuzz=45, grid_shards_thorough=16, extra=dict(
        # AllPaths / Decode carry debug-only contracts: the thorough tier repeats grid + random search with -tags debug
        # (17 s in the quick configuration: too slow for the quick tier)
        variants=[dict(name="rel"),
                  dict(name="debug", tags="debug", tiers=["thorough"], skip_last=True,
                       thorough=dict(prop=10000, prop_shards=4, grid_shards=1, timeout=3600))])),
    "C10": std("c10", 20000, 2000000, fuzz=30, extra=dict(
        engine="rapid+grid+gofuzz (release build; the quick grid and a shorter random search again with -tags debug)",
        # the path-word functions carry no contract today; a contract added to them (bmtree's must.Be checks are active with
        # -tags debug) must not fire on the heights 31 and 32 that this property includes
        variants=[dict(name="rel"),
                  dict(name="debug", tags="debug", skip_last=True,
                       quick=dict(prop=5000, prop_shards=1, grid_shards=1, timeout=300),
                       thorough=dict(prop=50000, prop_shards=4, grid_shards=1, timeout=3600))])),
    "C05": std("c05", 20000, 20000, grid_shards_thorough=16, extra=dict(
        engine="exhaustive enumeration + rapid", exhaustive_tiers=["thorough"],
        thorough=dict(prop=20000, prop_shards=1, grid_shards=16, timeout=3600))),
    "C01": std("c01", 3000, 20000, procs=True, fuzz=45, grid_shards_thorough=16),
    "C02": std("c02", 3000, 20000, procs=True, fuzz=45, grid_shards_thorough=16),
    "C03": std("c03", 20000, 600000, fuzz=45, grid_shards_thorough=16, extra=dict(
        engine="rapid+grid+gofuzz (release and -tags debug builds)",
        variants=[dict(name="rel"), dict(name="debug", tags="debug", thorough=dict(prop=150000, prop_shards=16, grid_shards=16, timeout=3600, fuzz=dict(seconds=30, target="FuzzProp")))],
    )),
}

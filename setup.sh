#!/bin/sh
# MANIFEST.setup_cmd: offline build of the framework from files on disk only.
set -e
cd "$(dirname "$0")"
export GOFLAGS=-mod=mod GOPROXY=off GOSUMDB=off GOTOOLCHAIN=local
command -v go >/dev/null || { echo "go toolchain missing" >&2; exit 1; }
command -v python3 >/dev/null || { echo "python3 missing" >&2; exit 1; }
python3 gen_manifest.py >/dev/null
mkdir -p evidence replays
# warm the build cache: compile every test binary once (the checks rebuild from /repo on every run anyway)
tmp=$(mktemp -d)
trap 'rm -rf "$tmp"' EXIT
cd harness
go vet ./vk/ ./gen/ ./model/ >/dev/null 2>&1 || true
go test -count=1 ./model/ ./pbm/ 2>&1 | tail -5
for d in c[0-9][0-9]; do
  [ -d "$d" ] || continue
  go test -c -vet=off -o "$tmp/$d.test" "./$d/" || { echo "setup: harness package $d does not build" >&2; exit 1; }
done
go build -o "$tmp/vmerge" ./cmd/vmerge
# the extra build configurations (their first build is the slow part of a cold quick run)
go test -c -vet=off -tags debug -o "$tmp/c03-debug.test" ./c03/ || { echo "setup: c03 does not build with -tags debug" >&2; exit 1; }
go test -c -vet=off -tags debug -o "$tmp/c10-debug.test" ./c10/ || { echo "setup: c10 does not build with -tags debug" >&2; exit 1; }
go test -c -vet=off -tags debug -o "$tmp/c11-debug.test" ./c11/ || { echo "setup: c11 does not build with -tags debug" >&2; exit 1; }
go test -c -vet=off -tags verif -o "$tmp/c19-verif.test" ./c19/ || echo "setup: note: c19 does not build with -tags verif (hooks missing?) - the check falls back to the untagged build"
go test -c -vet=off -tags verif -race -o "$tmp/c19-race.test" ./c19/ || go test -c -vet=off -race -o "$tmp/c19-race.test" ./c19/ || { echo "setup: c19 does not build with -race" >&2; exit 1; }
echo "setup ok"
